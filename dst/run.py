#!/venv/bin/python
"""Entry point: run a property check (seeded simulated runs), replay a file, or run a self-test.

  run.py Cxx --tier quick|thorough      check (exit 0 ok / 1 VIOLATION / 2 harness error)
  run.py Cxx --replay FILE              re-execute a replay file in this (fresh) interpreter
  run.py Cxx --indices 1,2,3            (internal) print digests of the given runs as JSON
  run.py selftest determinism|anchors|schema

Environment: VERIF_SEED (default 0), VERIF_TIER, VERIF_REPO (import root override), VERIF_WORKERS,
VERIF_OUT (directory for replays/ and evidence/ instead of /verif; used by the mutant self-tests only).
"""
from __future__ import annotations

import os
import sys

HERE = os.path.dirname(os.path.abspath(__file__))
VERIF = os.path.dirname(HERE)
# where replays/ and evidence/ are written; /verif itself unless the mutant self-test redirects it (VERIF_OUT)
OUT = os.environ.get("VERIF_OUT") or VERIF

# One fixed hash seed for every interpreter that executes runs (lark / set iteration order).
if os.environ.get("PYTHONHASHSEED") is None:
    os.environ["PYTHONHASHSEED"] = "0"
    os.execv(sys.executable, [sys.executable] + sys.argv)

if VERIF not in sys.path:
    sys.path.insert(0, VERIF)
_repo = os.environ.get("VERIF_REPO")
if _repo:
    sys.path.insert(0, _repo)
os.environ.setdefault("DISSECT_COBALTSTRIKE_VERIF", "1")

import argparse  # noqa: E402
import faulthandler  # noqa: E402
import hashlib  # noqa: E402
import importlib  # noqa: E402
import json  # noqa: E402
import multiprocessing  # noqa: E402
import subprocess  # noqa: E402
import time  # noqa: E402
import traceback  # noqa: E402
from collections import Counter  # noqa: E402
from concurrent.futures import ProcessPoolExecutor, as_completed  # noqa: E402
from concurrent.futures.process import BrokenProcessPool  # noqa: E402

from dst import core  # noqa: E402

CLAIMED = core.CLAIMED
WALL_CAP = {"quick": 300.0, "thorough": 2400.0}
if os.environ.get("VERIF_WALL_CAP"):      # mutant self-tests run checks with few workers each: do not truncate those batches
    WALL_CAP = {k: float(os.environ["VERIF_WALL_CAP"]) for k in WALL_CAP}
CHUNK_WALL = 600  # seconds: backstop for one chunk of runs in a worker (dump traceback + exit)


class _Guarded:
    """A property module whose execute() reports exceptions escaping from the code under test as violations."""

    def __init__(self, mod, pid):
        self._mod = mod
        self.execute = core.guarded(pid, mod.execute, getattr(mod, "RUN_WALL_S", None))
        gb = getattr(mod, "MEM_LIMIT_GB", None)
        if gb:
            # address-space limit of this process (and of the workers forked from it): a parser that allocates gigabytes for
            # an input of a few hundred kilobytes gets a MemoryError, which the property's check reports like any other
            # undocumented exception
            import resource
            soft, hard = resource.getrlimit(resource.RLIMIT_AS)
            want = int(gb) << 30
            if soft == resource.RLIM_INFINITY or soft > want:
                resource.setrlimit(resource.RLIMIT_AS, (want, hard))

    def __getattr__(self, name):
        return getattr(self._mod, name)


def load_prop(pid: str):
    return _Guarded(importlib.import_module(f"dst.props.{pid}"), pid)


def repo_root() -> str:
    import dissect.cobaltstrike as m
    return os.path.dirname(os.path.dirname(os.path.dirname(os.path.abspath(m.__path__[0] + "/x"))))


# --------------------------------------------------------------------------- known findings

def load_findings() -> dict:
    p = os.path.join(VERIF, "known_findings.json")
    if not os.path.exists(p):
        return {"findings": [], "fixed": []}
    with open(p) as f:
        return json.load(f)


def match_finding(findings: dict, pid: str, sig) -> dict | None:
    for f in findings.get("findings", []):
        if f.get("property") != pid:
            continue
        fs = f.get("signature", [])
        if len(fs) != len(sig):
            continue
        if all(a == "*" or a == b for a, b in zip(fs, sig)):
            return f
    return None


# --------------------------------------------------------------------------- worker

_PROP = None


def _plan_for(prop, pid, verif_seed, tier, kind, index):
    if kind == "sys":
        plan = prop.systematic_plan(tier, index)
        plan.setdefault("run_seed", core.run_seed_for(pid + "/sys", 0, index))
    else:
        rs = core.run_seed_for(pid, verif_seed, index)
        plan = prop.generate(core.plan_rng(rs), tier, index)
        plan["run_seed"] = rs
        plan["verif_seed"] = verif_seed
    plan["format"] = core.FORMAT
    plan["property"] = pid
    plan["run_index"] = index
    plan["population"] = kind
    plan["tier"] = tier
    return plan


_WORKER_CHUNKS: list = []   # [population, first, last] of the chunks THIS worker process has executed so far, in order


def _work(args):
    pid, verif_seed, tier, kind, indices, det_set = args
    faulthandler.dump_traceback_later(CHUNK_WALL, exit=True)
    prop = load_prop(pid)
    out = {
        "evaluations": 0, "cases": 0, "nontrivial": set(), "shapes": set(), "faults": Counter(), "probes": Counter(),
        "sim_time_us": 0, "violations": [], "discarded": Counter(), "harness": [], "digests": {}, "samples": [],
        "extra": Counter(), "histories": {},
    }
    last_done = None
    for index in indices:
        last_done = index
        try:
            plan = _plan_for(prop, pid, verif_seed, tier, kind, index)
            res = prop.execute(plan)
        except core.HarnessError as e:
            out["harness"].append((kind, index, "HarnessError: %s" % e))
            continue
        except Exception:
            out["harness"].append((kind, index, traceback.format_exc()[-2000:]))
            continue
        out["evaluations"] += 1
        out["cases"] += res.cases
        d = res.log.digest()
        if (kind, index) in det_set:
            out["digests"][f"{kind}:{index}"] = d
        if res.discarded:
            out["discarded"][res.discarded] += 1
            continue
        if res.nontrivial:
            out["nontrivial"].add(d[:16])
            out["shapes"].add(res.log.shape_digest())
        out["faults"].update(res.faults)
        out["probes"].update(res.probes)
        out["extra"].update(res.extra)
        out["sim_time_us"] += res.sim_time_us
        for v in res.violations:
            out["violations"].append((kind, index, list(v.sig), v.msg, v.plan or plan))
        if res.violations and len(out["histories"]) < 4:
            # everything this process executed before this run (for the last rung of the confirmation ladder)
            out["histories"][f"{kind}:{index}"] = [list(c) for c in _WORKER_CHUNKS] + ([[kind, indices[0], index - 1]] if index > indices[0] else [])
        if any("wall_clock" in v.sig for v in res.violations):
            break       # a run that had to be stopped by the wall-clock alarm: do not spend the chunk's budget on more of them
        if len(out["samples"]) < 2 and (res.faults or not out["samples"]):
            out["samples"].append(plan)
    if last_done is not None:
        _WORKER_CHUNKS.append([kind, indices[0], last_done])
    faulthandler.cancel_dump_traceback_later()
    return out


# --------------------------------------------------------------------------- replay

def write_replay(pid, plan, sig, digest, msg, directory="replays") -> str:
    d = os.path.join(OUT, directory)
    os.makedirs(d, exist_ok=True)
    sig8 = hashlib.sha256("/".join(sig).encode()).hexdigest()[:8]
    path = os.path.join(d, f"{pid}-{plan.get('run_seed', 'x')}-{sig8}.json")
    doc = dict(plan)
    doc["expect"] = {"signature": list(sig), "digest": digest, "message": msg}
    with open(path, "w") as f:
        json.dump(doc, f, indent=1, sort_keys=True)
    return path


def do_replay(pid, path) -> int:
    prop = load_prop(pid)
    if hasattr(prop, "prepare"):
        prop.prepare(None)
    with open(path) as f:
        doc = json.load(f)
    expect = doc.pop("expect", {})
    pr = doc.pop("prelude_ranges", None)
    if pr:
        # every run the worker process had executed before the failing one (state leaked across runs in one process)
        for kind_, a, b in pr["ranges"]:
            for j in range(a, b + 1):
                try:
                    prop.execute(_plan_for(prop, pid, pr["verif_seed"], pr["tier"], kind_, j))
                except Exception:
                    pass
    for pre in doc.pop("prelude", []):
        # runs that have to precede this one in the same process (the violation depends on state leaking across runs)
        try:
            prop.execute(pre)
        except Exception:
            pass
    res = prop.execute(doc)
    want = tuple(expect.get("signature", []))
    print(f"REPLAY property={pid} file={path} digest={res.log.digest()}")
    for v in res.violations:
        print("SIGNATURE " + json.dumps(list(v.sig)))
        print("  " + v.msg[:1500])
    same_sig = any(v.sig == want for v in res.violations) if want else bool(res.violations)
    same_digest = (not expect.get("digest")) or expect["digest"] == res.log.digest()
    if same_sig and same_digest:
        print(f"VIOLATION property={pid} replay={path}")
        return 1
    if same_sig and not same_digest:
        print(f"HARNESS-ERROR property={pid} kind=replay-digest-mismatch expected={expect.get('digest')}")
        return 2
    print("REPLAY: the recorded violation does not reproduce on this tree")
    return 0


def fresh_replay(pid, path) -> tuple[int, str]:
    env = dict(os.environ)
    p = subprocess.run([sys.executable, os.path.abspath(__file__), pid, "--replay", path],
                       capture_output=True, text=True, env=env, timeout=900)
    return p.returncode, p.stdout + p.stderr


# --------------------------------------------------------------------------- check

def chunked(seq, n):
    for i in range(0, len(seq), n):
        yield seq[i:i + n]


def run_check(pid: str, tier: str, verif_seed: int, runs: int | None, workers: int, det: bool, sweep: bool = False,
              runs_div: int = 1) -> int:
    t0 = time.monotonic()
    prop = load_prop(pid)
    if hasattr(prop, "prepare"):
        prop.prepare(tier)      # per-check setup in the parent (inherited by the forked workers)
    n_seeded = runs if runs is not None else prop.RUNS[tier]
    n_sys = prop.systematic_count(tier) if hasattr(prop, "systematic_count") else 0
    if runs is not None and runs < prop.RUNS[tier]:
        n_sys = min(n_sys, runs)
    if runs_div > 1:
        n_seeded, n_sys = max(1, n_seeded // runs_div), (max(1, n_sys // runs_div) if n_sys else 0)
    print(f"SEED verif_seed={verif_seed} property={pid} tier={tier} runs={n_seeded} systematic={n_sys} "
          f"workers={workers} repo={repo_root()}", flush=True)

    import glob
    for stale in glob.glob(os.path.join(OUT, "replays", f"{pid}-*.json")) + glob.glob(os.path.join(OUT, "replays", "unminimised", f"{pid}-*.json")):
        os.unlink(stale)

    # which runs are re-executed in a second fresh interpreter (determinism self-check)
    det_idx = sorted({int(n_seeded * k / 8) for k in range(8)} & set(range(n_seeded))) if det else []
    det_sys = sorted({int(n_sys * k / 3) for k in range(3)} & set(range(n_sys))) if det else []
    det_set = {("seed", i) for i in det_idx} | {("sys", i) for i in det_sys}

    csize = getattr(prop, "CHUNK", {}).get(tier, 64)
    jobs = [(pid, verif_seed, tier, "sys", c, det_set) for c in chunked(list(range(n_sys)), max(1, csize // 4 or 1))]
    jobs += [(pid, verif_seed, tier, "seed", c, det_set) for c in chunked(list(range(n_seeded)), csize)]

    agg = {
        "evaluations": 0, "cases": 0, "nontrivial": set(), "shapes": set(), "faults": Counter(), "probes": Counter(),
        "sim_time_us": 0, "violations": [], "discarded": Counter(), "harness": [], "digests": {}, "samples": [],
        "extra": Counter(), "histories": {},
    }
    truncated = False
    _kf = load_findings()
    ctx = multiprocessing.get_context("fork")
    try:
        with ProcessPoolExecutor(max_workers=workers, mp_context=ctx) as ex:
            pending = list(jobs)
            futs = set()
            it = iter(pending)
            # bounded submission so that the wall cap can stop early
            def submit_more():
                nonlocal truncated
                while len(futs) < workers * 2:
                    if sweep and (agg["harness"] or any(match_finding(_kf, pid, tuple(v[2])) is None for v in agg["violations"])):
                        return      # mutant sweeps only need to know whether anything is found
                    if time.monotonic() - t0 > WALL_CAP[tier]:
                        truncated = True
                        return
                    try:
                        j = next(it)
                    except StopIteration:
                        return
                    futs.add(ex.submit(_work, j))
            submit_more()
            while futs:
                done = next(as_completed(futs))
                futs.discard(done)
                out = done.result()
                for k in ("evaluations", "cases", "sim_time_us"):
                    agg[k] += out[k]
                agg["nontrivial"] |= out["nontrivial"]
                agg["shapes"] |= out["shapes"]
                for k in ("faults", "probes", "discarded", "extra"):
                    agg[k].update(out[k])
                agg["violations"] += out["violations"]
                agg["harness"] += out["harness"]
                agg["digests"].update(out["digests"])
                agg["histories"].update(out.get("histories", {}))
                if len(agg["samples"]) < 3:
                    agg["samples"] += out["samples"][: 3 - len(agg["samples"])]
                submit_more()
            if truncated and next(it, None) is None:
                truncated = False
    except BrokenProcessPool:
        print(f"HARNESS-ERROR property={pid} kind=worker-died-or-wall-backstop (see stderr for the traceback dump)")
        return 2

    rc = 0
    # ----- harness errors
    for kind, index, tb in agg["harness"][:5]:
        print(f"HARNESS-ERROR property={pid} run={kind}:{index} kind=exception-in-harness\n{tb}")
    if agg["harness"]:
        rc = 2

    # ----- determinism self-check in a fresh interpreter under another hash seed
    det_info = {"checked": 0, "mismatches": 0}
    if det and (det_idx or det_sys) and rc == 0:
        env = dict(os.environ)
        env["PYTHONHASHSEED"] = "12345"
        env["VERIF_SEED"] = str(verif_seed)
        cmd = [sys.executable, os.path.abspath(__file__), pid, "--tier", tier,
               "--indices", ",".join(map(str, det_idx)), "--sys-indices", ",".join(map(str, det_sys))]
        p = subprocess.run(cmd, capture_output=True, text=True, env=env, timeout=900)
        try:
            other = json.loads(p.stdout.strip().splitlines()[-1])
        except Exception:
            print(f"HARNESS-ERROR property={pid} kind=determinism-selfcheck-failed-to-run\n{p.stdout[-800:]}{p.stderr[-1500:]}")
            return 2
        for k, d in other.items():
            if k not in agg["digests"]:
                continue  # that run was not executed (wall cap)
            det_info["checked"] += 1
            if agg["digests"].get(k) != d:
                det_info["mismatches"] += 1
                print(f"HARNESS-ERROR property={pid} run={k} kind=nondeterministic digest {agg['digests'].get(k)} != {d}")
        if det_info["mismatches"]:
            rc = 2

    # ----- violations
    findings = load_findings()
    by_sig: dict = {}
    for kind, index, sig, msg, plan in agg["violations"]:
        by_sig.setdefault(tuple(sig), []).append((kind, index, msg, plan))
    known_seen = Counter()
    n_viol = 0
    reported = 0
    not_repro = []
    for sig, items in sorted(by_sig.items()):
        f = match_finding(findings, pid, sig)
        if f is not None:
            known_seen[f["id"]] += len(items)
            continue
        n_viol += len(items)
        # Confirmation ladder. Every reported violation is re-executed from its replay file in a FRESH interpreter:
        #   1. the minimised plan, 2. the unminimised plan, 3. the plan preceded by the three runs that preceded it in the
        #   batch ("prelude": the violation depends on state the code under test leaks across runs in one process).
        # Several occurrences are tried; what never reproduces is not reported as a violation.
        confirmed = None
        cands = sorted(items, key=lambda t: core.plan_size(t[3]))[:6]
        for kind, index, msg, plan in cands:
            try:
                r = prop.execute(plan)
            except Exception:
                r = None
            if r is None or not any(v.sig == sig for v in r.violations):
                continue
            unmin = write_replay(pid, plan, sig, r.log.digest(), msg, directory="replays/unminimised")
            code, _ = fresh_replay(pid, unmin)
            if code != 1:
                continue       # only failed in this process because of leaked state: try another occurrence / the prelude
            small, execs = plan, 0
            if reported < 6 and not sweep and "wall_clock" not in sig:
                small, execs = core.minimise(plan, sig, prop.execute, prop.candidates)
            path = unmin
            if small is not plan:
                r2 = prop.execute(small)
                if any(v.sig == sig for v in r2.violations):
                    p2 = write_replay(pid, small, sig, r2.log.digest(), next(v.msg for v in r2.violations if v.sig == sig))
                    if fresh_replay(pid, p2)[0] == 1:
                        path = p2
                    else:
                        small = plan
                else:
                    small = plan
            confirmed = (path, kind, index, msg, f"minimised_in={execs} execs size {core.plan_size(plan)}->{core.plan_size(small)} "
                                               f"unminimised={unmin}")
            break
        if confirmed is None:
            for kind, index, msg, plan in cands[:3]:
                if plan.get("run_index") is None or plan.get("population") not in ("seed", "sys"):
                    continue
                pk = plan["population"]
                doc = dict(plan)
                doc["prelude"] = [_plan_for(prop, pid, verif_seed, tier, pk, j) for j in range(max(0, index - 3), index)]
                tmp = write_replay(pid, doc, sig, "", msg)
                if fresh_replay(pid, tmp)[0] == 1:
                    confirmed = (tmp, kind, index, msg, "NOTE: reproduces only after the preceding runs recorded as 'prelude' in the "
                                                        "replay file (state leaks across runs in one process)")
                    break
        if confirmed is None:
            # last rung: everything that ran before it in the same chunk of runs (one worker executes a chunk of consecutive
            # indices in one go, so state left behind by any of them was present)
            for kind, index, msg, plan in cands[:2]:
                if plan.get("run_index") is None or plan.get("population") not in ("seed", "sys"):
                    continue
                pk = plan["population"]
                cs = max(1, csize // 4 or 1) if pk == "sys" else csize
                first = (index // cs) * cs
                if index - first <= 3:
                    continue
                doc = dict(plan)
                doc["prelude"] = [_plan_for(prop, pid, verif_seed, tier, pk, j) for j in range(first, index)]
                tmp = write_replay(pid, doc, sig, "", msg)
                if fresh_replay(pid, tmp)[0] == 1:
                    confirmed = (tmp, kind, index, msg, f"NOTE: reproduces only after the {index - first} runs that preceded it in its chunk "
                                                        f"(recorded as 'prelude' in the replay file): state leaks across runs in one process")
                    break
        if confirmed is None:
            # very last rung: everything the worker process had executed before the failing run, earlier chunks included
            for kind, index, msg, plan in sorted(items, key=lambda t: t[1]):
                h = agg["histories"].get(f"{kind}:{index}")
                if not h or len(h) < 2:
                    continue
                total = sum(b - a + 1 for _, a, b in h)
                if total > 80000:
                    continue
                doc = dict(plan)
                doc["prelude_ranges"] = {"verif_seed": verif_seed, "tier": tier, "ranges": h}
                tmp = write_replay(pid, doc, sig, "", msg)
                if fresh_replay(pid, tmp)[0] == 1:
                    confirmed = (tmp, kind, index, msg, f"NOTE: reproduces only after the {total} runs its worker process had executed before it "
                                                        f"(recorded as 'prelude_ranges' in the replay file): state leaks across runs in one process")
                break
        if confirmed is None:
            kind, index, msg, plan = cands[0]
            not_repro.append((kind, index, sig))
            continue
        reported += 1
        path, kind, index, msg, note = confirmed
        print(f"VIOLATION property={pid} replay={path}")
        print(f"  signature={list(sig)} occurrences={len(items)} first_run={kind}:{index} {note}")
        print("  " + msg[:600].replace("\n", "\n  "))
        rc = 1      # a violation confirmed by replay decides the exit status, whatever else went wrong in the batch
        if sweep:
            break
    for kind, index, sig in not_repro[:5]:
        if reported:
            print(f"NOTE property={pid} run={kind}:{index} sig={list(sig)}: seen in the batch but not reproducible alone "
                  f"(other violations were confirmed by replay)")
        else:
            print(f"HARNESS-ERROR property={pid} run={kind}:{index} kind=violation-not-reproducible sig={list(sig)}")
            rc = 2
    for f in findings.get("findings", []):
        if f.get("property") == pid and known_seen.get(f["id"]):
            print(f"KNOWN-FINDING: property={pid} {f['what']} (finding {f['id']}, seen {known_seen[f['id']]}x, replay {f.get('replay')})")

    # ----- evidence
    wall = time.monotonic() - t0
    zero_probes = [p for p in getattr(prop, "PROBES", []) if not agg["probes"].get(p)]
    if zero_probes and tier == "thorough":
        print(f"WARNING property={pid} probes never hit: {zero_probes}")
    ev = {
        "property_id": pid,
        "tier": tier,
        "seed": verif_seed,
        "level": prop.LEVEL,
        "coverage": {
            "evaluations": agg["evaluations"],
            "distinct_nontrivial": len(agg["nontrivial"]),
            "rule": prop.RULE,
            "samples": [_abridge(s) for s in agg["samples"][:3]],
            "cases": agg["cases"],
            "exhaustive": bool(getattr(prop, "EXHAUSTIVE", {}).get(tier, False)) and not truncated,
            "exhaustive_scope": getattr(prop, "EXHAUSTIVE_SCOPE", None),
            "runs_per_hour": int(agg["evaluations"] / wall * 3600) if wall > 0 else 0,
            "cases_per_hour": int(agg["cases"] / wall * 3600) if wall > 0 else 0,
            "sim_time_s": agg["sim_time_us"] / 1e6,
            "faults_fired": dict(sorted(agg["faults"].items())),
            "probes": dict(sorted(agg["probes"].items())),
            "probes_never_hit": zero_probes,
            "distinct_interleaving_shapes": len(agg["shapes"]),
            "discarded": dict(agg["discarded"]),
            "extra": dict(sorted(agg["extra"].items())),
            "determinism": det_info,
            "known_findings_seen": dict(known_seen),
            "budget_truncated": truncated,
            "seeded_runs": n_seeded, "systematic_runs": n_sys, "workers": workers,
            "real_components": prop.REAL,
            "stub_components": prop.STUB,
            "technique": "deterministic simulation with fault injection (seeded search over plans; see DESIGN.md)",
        },
        "assumptions": prop.ASSUMPTIONS,
        "wall_s": round(wall, 2),
        "violations": n_viol,
    }
    os.makedirs(os.path.join(OUT, "evidence"), exist_ok=True)
    with open(os.path.join(OUT, "evidence", f"{pid}.json"), "w") as f:
        json.dump(ev, f, indent=1, sort_keys=True)
    print(f"DONE property={pid} tier={tier} evaluations={agg['evaluations']} cases={agg['cases']} "
          f"distinct_nontrivial={len(agg['nontrivial'])} violations={n_viol} known={sum(known_seen.values())} "
          f"harness_errors={len(agg['harness'])} wall={wall:.1f}s truncated={truncated} exit={rc}")
    return rc


def _abridge(plan, limit=400):
    def ab(x):
        if isinstance(x, str) and len(x) > limit:
            return x[:limit] + f"...({len(x)} chars)"
        if isinstance(x, list):
            if len(x) > 40:
                return [ab(i) for i in x[:40]] + [f"...({len(x)} items)"]
            return [ab(i) for i in x]
        if isinstance(x, dict):
            return {k: ab(v) for k, v in x.items()}
        return x
    return ab(plan)


def print_indices(pid, tier, verif_seed, idx, sysidx) -> int:
    prop = load_prop(pid)
    if hasattr(prop, "prepare"):
        prop.prepare(tier)
    out = {}
    nsys = prop.systematic_count(tier) if hasattr(prop, "systematic_count") else 0
    for kind, lst in (("seed", idx), ("sys", [i for i in sysidx if i < nsys])):
        for i in lst:
            plan = _plan_for(prop, pid, verif_seed, tier, kind, i)
            out[f"{kind}:{i}"] = prop.execute(plan).log.digest()
    print(json.dumps(out))
    return 0


def main() -> int:
    ap = argparse.ArgumentParser()
    ap.add_argument("prop")
    ap.add_argument("what", nargs="?")
    ap.add_argument("--tier", default=os.environ.get("VERIF_TIER", "quick"), choices=["quick", "thorough"])
    ap.add_argument("--seed", type=int, default=int(os.environ.get("VERIF_SEED", "0") or 0))
    ap.add_argument("--runs", type=int, default=None)
    ap.add_argument("--workers", type=int, default=int(os.environ.get("VERIF_WORKERS", "0") or 0) or (os.cpu_count() or 4))
    ap.add_argument("--replay")
    ap.add_argument("--indices")
    ap.add_argument("--sys-indices", default="")
    ap.add_argument("--no-determinism", action="store_true")
    ap.add_argument("--runs-div", type=int, default=1, help="(mutant sweeps) execute 1/N of the tier's seeded and systematic runs")
    ap.add_argument("--sweep", action="store_true",
                    help="mutant sweeps: stop at the first violation, confirm it by fresh replay, skip minimisation")
    a = ap.parse_args()

    if a.prop == "selftest":
        from dst import selftest
        return selftest.main(a.what, a)
    if a.replay:
        return do_replay(a.prop, a.replay)
    if a.indices is not None:
        idx = [int(x) for x in a.indices.split(",") if x != ""]
        sidx = [int(x) for x in a.sys_indices.split(",") if x != ""]
        return print_indices(a.prop, a.tier, a.seed, idx, sidx)
    return run_check(a.prop, a.tier, a.seed, a.runs, a.workers, not a.no_determinism and not a.sweep, a.sweep, a.runs_div)


if __name__ == "__main__":
    sys.exit(main())
