"""World F: the simulated storage device and the `io` seam of the reader modules.

`SimFile` is the BinaryIO handed to the extractors; `IoSeam` rebinds the module-global `io` of the reader
modules to a shim whose DEFAULT_BUFFER_SIZE is a knob and whose BytesIO counts reader calls against the same
budget. The budget is the deterministic clock for "terminates".
"""
from __future__ import annotations

import io as _real_io
import types
from typing import List, Optional


class ReadBudgetExceeded(BaseException):
    """Raised when the reader-call budget is exhausted. BaseException so that no `except Exception`
    in the code under test can swallow it."""


STALL_LIMIT = 20000


class Budget:
    """Deterministic clock for "terminates": total reader calls, plus a stall detector (consecutive reads that
    return nothing - the signature of a loop waiting at EOF for a byte that never comes)."""

    __slots__ = ("limit", "used", "stall")

    def __init__(self, limit: int):
        self.limit = limit
        self.used = 0
        self.stall = 0

    def tick(self) -> None:
        self.used += 1
        if self.used > self.limit:
            raise ReadBudgetExceeded(f"reader-call budget of {self.limit} exhausted")

    def read_result(self, n_requested, data) -> None:
        if data or n_requested == 0:
            self.stall = 0
        else:
            self.stall += 1
            if self.stall > STALL_LIMIT:
                raise ReadBudgetExceeded(f"{STALL_LIMIT} consecutive empty reads: loop waiting at EOF")


_NO_BUDGET = Budget(1 << 62)
_current_budget: Budget = _NO_BUDGET


class SimFile(_real_io.BytesIO):
    """In-memory random access file with an operation trace and a reader-call budget.

    Behaviour is exactly BytesIO's (the reader type the library documents); only counting is added.
    No short reads and no I/O errors are ever injected (see DESIGN §5.1).
    """

    def __init__(self, data: bytes, budget: Optional[Budget] = None, trace: Optional[List] = None):
        super().__init__(data)
        self._budget = budget or _current_budget
        self._trace = trace

    def read(self, n=-1):
        self._budget.tick()
        if self._trace is not None:
            self._trace.append(("r", super().tell(), n))
        data = super().read(n)
        self._budget.read_result(n, data)
        return data

    def readinto(self, b):
        self._budget.tick()
        return super().readinto(b)

    def seek(self, off, whence=0):
        self._budget.tick()
        if self._trace is not None:
            self._trace.append(("s", off, whence))
        return super().seek(off, whence)

    def tell(self):
        self._budget.tick()
        return super().tell()


class _CountingBytesIO(_real_io.BytesIO):
    """BytesIO used *inside* the library (iter_settings, guardrails key search, c2 framing): same budget."""

    def read(self, n=-1):
        _current_budget.tick()
        data = super().read(n)
        _current_budget.read_result(n, data)
        return data

    def readinto(self, b):
        _current_budget.tick()
        return super().readinto(b)

    def read1(self, n=-1):
        _current_budget.tick()
        return super().read1(n)

    def seek(self, off, whence=0):
        _current_budget.tick()
        return super().seek(off, whence)


def _make_shim(buffer_size: int):
    shim = types.ModuleType("io")
    shim.__dict__.update({k: v for k, v in _real_io.__dict__.items() if not k.startswith("__")})
    shim.DEFAULT_BUFFER_SIZE = buffer_size
    shim.BytesIO = _CountingBytesIO
    shim.__verif_shim__ = True
    return shim


READER_MODULES = ("utils", "beacon", "xordecode", "guardrails", "pe", "artifact", "c2")


class IoSeam:
    """Context manager: rebinding of `io` in the reader modules + the active budget."""

    def __init__(self, buffer_size: Optional[int] = None, budget: Optional[Budget] = None):
        self.buffer_size = buffer_size if buffer_size is not None else _real_io.DEFAULT_BUFFER_SIZE
        self.budget = budget or Budget(1 << 62)
        self._saved = {}

    def __enter__(self):
        global _current_budget
        import importlib
        shim = _make_shim(self.buffer_size)
        for name in READER_MODULES:
            mod = importlib.import_module(f"dissect.cobaltstrike.{name}")
            if hasattr(mod, "io"):
                self._saved[mod] = mod.io
                mod.io = shim
        self._prev_budget = _current_budget
        _current_budget = self.budget
        return self

    def __exit__(self, *exc):
        global _current_budget
        for mod, orig in self._saved.items():
            mod.io = orig
        self._saved.clear()
        _current_budget = self._prev_budget
        return False

    def file(self, data: bytes, trace: Optional[List] = None) -> SimFile:
        return SimFile(data, self.budget, trace)
