"""World F: the simulated storage device and the `io` seam of the reader modules.

`SimFile` is the BinaryIO handed to the extractors; `IoSeam` rebinds the module-global `io` of the reader
modules to a shim whose DEFAULT_BUFFER_SIZE is a knob and whose BytesIO counts reader calls against the same
budget. The budget is the deterministic clock for "terminates".
"""
from __future__ import annotations

import io as _real_io
import types
from typing import List, Optional


class ReadBudgetExceeded(BaseException):
    """Raised when the reader-call budget is exhausted. BaseException so that no `except Exception`
    in the code under test can swallow it."""


STALL_LIMIT = 20000
CYCLE_KEYS = 32        # a "tight cycle" revisits at most this many distinct (operation, position, size) triples ...
CYCLE_LIMIT = 200000   # ... for this many consecutive reader calls without a single new triple in between


class Budget:
    """Deterministic clock for "terminates": total reader calls, plus two no-progress detectors that fire long before
    the total budget does: a stall detector (consecutive reads that return nothing - the signature of a loop waiting at
    EOF for a byte that never comes) and a cycle detector (the same few seek/read operations at the same positions
    repeated for CYCLE_LIMIT consecutive calls - the signature of a scan loop that forgot to advance)."""

    __slots__ = ("limit", "used", "stall", "recent", "cyc")

    def __init__(self, limit: int):
        self.limit = limit
        self.used = 0
        self.stall = 0
        self.recent = set()
        self.cyc = 0

    def op(self, key) -> None:
        """Called for every seek/read with (kind, position, size)."""
        if key in self.recent:
            self.cyc += 1
            if self.cyc > CYCLE_LIMIT:
                raise ReadBudgetExceeded(f"{CYCLE_LIMIT} consecutive reader calls revisiting the same <= {CYCLE_KEYS} "
                                         f"(operation, position, size) triples: scan loop that does not advance")
        else:
            self.cyc = 0
            if len(self.recent) >= CYCLE_KEYS:
                self.recent.clear()
            self.recent.add(key)

    def tick(self) -> None:
        self.used += 1
        if self.used > self.limit:
            raise ReadBudgetExceeded(f"reader-call budget of {self.limit} exhausted")

    def read_result(self, n_requested, data) -> None:
        if data or n_requested == 0:
            self.stall = 0
        else:
            self.stall += 1
            if self.stall > STALL_LIMIT:
                raise ReadBudgetExceeded(f"{STALL_LIMIT} consecutive empty reads: loop waiting at EOF")


_NO_BUDGET = Budget(1 << 62)
_current_budget: Budget = _NO_BUDGET


class SimFile(_real_io.BytesIO):
    """In-memory random access file with an operation trace and a reader-call budget.

    Behaviour is exactly BytesIO's (the reader type the library documents); only counting is added.
    No short reads and no I/O errors are ever injected (see DESIGN §5.1).
    """

    def __init__(self, data: bytes, budget: Optional[Budget] = None, trace: Optional[List] = None):
        super().__init__(data)
        self._budget = budget or _current_budget
        self._trace = trace

    def read(self, n=-1):
        self._budget.tick()
        pos = super().tell()
        self._budget.op(("r", pos, n))
        if self._trace is not None:
            self._trace.append(("r", pos, n))
        data = super().read(n)
        self._budget.read_result(n, data)
        return data

    def readinto(self, b):
        self._budget.tick()
        return super().readinto(b)

    def seek(self, off, whence=0):
        self._budget.tick()
        self._budget.op(("s", off, whence, super().tell() if whence == 1 else 0))
        if self._trace is not None:
            self._trace.append(("s", off, whence))
        return super().seek(off, whence)

    def tell(self):
        self._budget.tick()
        return super().tell()


class _CountingBytesIO(_real_io.BytesIO):
    """BytesIO used *inside* the library (iter_settings, guardrails key search, c2 framing): same budget."""

    def read(self, n=-1):
        _current_budget.tick()
        _current_budget.op(("r", super().tell(), n))
        data = super().read(n)
        _current_budget.read_result(n, data)
        return data

    def readinto(self, b):
        _current_budget.tick()
        return super().readinto(b)

    def read1(self, n=-1):
        _current_budget.tick()
        return super().read1(n)

    def seek(self, off, whence=0):
        _current_budget.tick()
        _current_budget.op(("s", off, whence, super().tell() if whence == 1 else 0))
        return super().seek(off, whence)


class _CountingRealFile:
    """What `open(path, "rb")` returns inside the reader modules while the seam is active: the real buffered file
    object (real file I/O stays real) with every read/seek/tell counted against the active budget, so that
    from_path entry points are under the same deterministic termination clock as from_file/from_bytes."""

    def __init__(self, fh):
        self._fh = fh

    def read(self, n=-1):
        _current_budget.tick()
        _current_budget.op(("r", self._fh.tell(), n))
        data = self._fh.read(n)
        _current_budget.read_result(n, data)
        return data

    def seek(self, off, whence=0):
        _current_budget.tick()
        _current_budget.op(("s", off, whence, self._fh.tell() if whence == 1 else 0))
        return self._fh.seek(off, whence)

    def tell(self):
        _current_budget.tick()
        return self._fh.tell()

    def __enter__(self):
        return self

    def __exit__(self, *exc):
        self._fh.close()
        return False

    def __getattr__(self, name):
        return getattr(self._fh, name)

    def __iter__(self):
        return iter(self._fh)


def _counting_open(path, mode="r", *a, **kw):
    fh = open(path, mode, *a, **kw)
    if "b" in mode and not any(c in mode for c in "wa+x"):
        return _CountingRealFile(fh)
    return fh


def _make_shim(buffer_size: int):
    shim = types.ModuleType("io")
    shim.__dict__.update({k: v for k, v in _real_io.__dict__.items() if not k.startswith("__")})
    shim.DEFAULT_BUFFER_SIZE = buffer_size
    shim.BytesIO = _CountingBytesIO
    shim.__verif_shim__ = True
    return shim


_MISSING = object()
READER_MODULES = ("utils", "beacon", "xordecode", "guardrails", "pe", "artifact", "c2")


class IoSeam:
    """Context manager: rebinding of `io` in the reader modules + the active budget."""

    def __init__(self, buffer_size: Optional[int] = None, budget: Optional[Budget] = None):
        self.buffer_size = buffer_size if buffer_size is not None else _real_io.DEFAULT_BUFFER_SIZE
        self.budget = budget or Budget(1 << 62)
        self._saved = {}
        self._saved_open = []

    def __enter__(self):
        global _current_budget
        import importlib
        shim = _make_shim(self.buffer_size)
        for name in READER_MODULES:
            mod = importlib.import_module(f"dissect.cobaltstrike.{name}")
            if hasattr(mod, "io"):
                self._saved[mod] = mod.io
                mod.io = shim
            if name in ("beacon", "xordecode"):
                # `open` is looked up as a module global before the builtin: from_path reads through a counted handle
                self._saved_open.append((mod, mod.__dict__.get("open", _MISSING)))
                mod.open = _counting_open
        self._prev_budget = _current_budget
        _current_budget = self.budget
        return self

    def __exit__(self, *exc):
        global _current_budget
        for mod, orig in self._saved.items():
            mod.io = orig
        self._saved.clear()
        for mod, orig in self._saved_open:
            if orig is _MISSING:
                del mod.open
            else:
                mod.open = orig
        self._saved_open.clear()
        _current_budget = self._prev_budget
        return False

    def file(self, data: bytes, trace: Optional[List] = None) -> SimFile:
        return SimFile(data, self.budget, trace)
