"""World F: independent payload builder (reference *encoder*) and reference decoders.

Written from the file formats, not from the library's code paths: nothing here imports dissect.cobaltstrike.
Everything is a pure function of explicit plan values.
"""
from __future__ import annotations

import hashlib
import struct
from typing import Dict, List, Optional, Sequence, Tuple

CONFIG_HEADER = b"\x00\x01\x00\x01\x00\x02\x00"
PATCH_SIZE = 4096
TYPE_CODE = {"none": 0, "short": 1, "int": 2, "ptr": 3}


def prng_bytes(seed: int, n: int) -> bytes:
    """Deterministic filler bytes (SHA-256 in counter mode)."""
    out = bytearray()
    c = 0
    while len(out) < n:
        out += hashlib.sha256(b"fill|%d|%d" % (seed, c)).digest()
        c += 1
    return bytes(out[:n])


def xor1(data: bytes, key: int) -> bytes:
    if key == 0:
        return bytes(data)
    return bytes(b ^ key for b in data)


def xor_tile(data: bytes, key: bytes) -> bytes:
    if not key:
        return bytes(data)
    k = len(key)
    return bytes(b ^ key[i % k] for i, b in enumerate(data))


# ------------------------------------------------------------------------------------------- settings TLV

def encode_setting(index: int, typ, value) -> bytes:
    """One big-endian TLV record. `value`: int for short/int, bytes (already padded) for ptr/none."""
    t = TYPE_CODE[typ] if isinstance(typ, str) else typ
    if typ == "short":
        v = struct.pack(">H", value & 0xFFFF)
    elif typ == "int":
        v = struct.pack(">I", value & 0xFFFFFFFF)
    else:
        v = bytes(value)
    return struct.pack(">HHH", index, t, len(v)) + v


def encode_settings(settings: Sequence[Sequence], terminator: bool = True, pad_to: Optional[int] = PATCH_SIZE,
                    pad_byte: int = 0) -> bytes:
    """settings: [[index, type, value], ...] with value int | hex-string (for ptr)."""
    out = bytearray()
    for index, typ, value in settings:
        if isinstance(value, str):
            value = bytes.fromhex(value)
        out += encode_setting(index, typ, value)
    if terminator:
        out += b"\x00\x00"
    if pad_to is not None and len(out) < pad_to:
        out += bytes([pad_byte]) * (pad_to - len(out))
    return bytes(out)


def ref_decode_settings(block: bytes) -> List[Tuple[int, int, int, bytes]]:
    """Reference TLV decoder: (index, type, length, value) until a zero index or until a record does not fit.

    The over-long User-Agent continuation is not modelled (builders never produce it where this is used).
    """
    out = []
    p = 0
    n = len(block)
    while True:
        if block[p:p + 2] == b"\x00\x00":
            break
        if p + 6 > n:
            break
        index, typ, length = struct.unpack_from(">HHH", block, p)
        if p + 6 + length > n:
            break
        out.append((index, typ, length, block[p + 6:p + 6 + length]))
        p += 6 + length
    return out


# ------------------------------------------------------------------------------------------- PE image

MACHINE = {"x86": 0x014C, "x64": 0x8664}


def build_pe(arch: str = "x86", e_lfanew: int = 128, compile_stamp: int = 0x5F000000,
             export_stamp: Optional[int] = 0x5F100000, data: bytes = b"", text_size: int = 512,
             magic_mz: bytes = b"MZ", magic_pe: bytes = b"PE\x00\x00", filler_seed: int = 1,
             data_vsize: Optional[int] = None, num_rva: int = 16) -> Tuple[bytes, Dict[str, int]]:
    """Minimal but structurally faithful PE: DOS header, PE signature, file header, optional header (32/64),
    three sections (.text, .rdata with an export directory, .data holding `data`). Returns (bytes, map)."""
    file_align = 0x200
    sect_align = 0x1000

    def align(x, a):
        return (x + a - 1) // a * a

    is64 = arch == "x64"
    opt_size = 240 if is64 else 224
    nsect = 3
    hdr_end = e_lfanew + 4 + 20 + opt_size + nsect * 40
    size_of_headers = align(hdr_end, file_align)

    text_raw = prng_bytes(filler_seed, text_size)
    text_rsize = align(len(text_raw), file_align)
    exp = b""
    if export_stamp is not None:
        exp = struct.pack("<IIHHIIIIIII", 0, export_stamp & 0xFFFFFFFF, 0, 0, 0x2100, 1, 1, 1, 0x2028, 0x202C, 0x2030)
    rdata_raw = exp + prng_bytes(filler_seed + 1, 96)
    rdata_rsize = align(len(rdata_raw), file_align)
    data_rsize = align(max(len(data), 1), file_align)

    text_ptr = size_of_headers
    rdata_ptr = text_ptr + text_rsize
    data_ptr = rdata_ptr + rdata_rsize
    text_va, rdata_va = 0x1000, 0x2000
    data_va = 0x3000

    dos = bytearray(64)
    dos[0:2] = (magic_mz + b"\x00\x00")[:2]
    struct.pack_into("<i", dos, 0x3C, e_lfanew)
    stub = prng_bytes(filler_seed + 2, max(0, e_lfanew - 64))
    file_hdr = struct.pack("<HHIIIHH", MACHINE[arch], nsect, compile_stamp & 0xFFFFFFFF, 0, 0, opt_size,
                           0x2022 if is64 else 0x2102)
    dd = bytearray(16 * 8)
    if export_stamp is not None:
        struct.pack_into("<II", dd, 0, rdata_va, len(exp))
    size_of_image = data_va + align(max(len(data), 1), sect_align)
    if is64:
        opt = struct.pack("<HBBIIIIIQIIHHHHHHIIIIHHQQQQII", 0x20B, 14, 0, text_rsize, rdata_rsize + data_rsize, 0,
                          text_va, text_va, 0x180000000, sect_align, file_align, 6, 0, 0, 0, 6, 0, 0,
                          size_of_image, size_of_headers, 0, 2, 0x160, 0x100000, 0x1000, 0x100000, 0x1000, 0, num_rva)
    else:
        opt = struct.pack("<HBBIIIIIIIIIHHHHHHIIIIHHIIIIII", 0x10B, 14, 0, text_rsize, rdata_rsize + data_rsize, 0,
                          text_va, text_va, rdata_va, 0x10000000, sect_align, file_align, 6, 0, 0, 0, 6, 0, 0,
                          size_of_image, size_of_headers, 0, 2, 0x140, 0x100000, 0x1000, 0x100000, 0x1000, 0, num_rva)
    opt += bytes(dd)
    assert len(opt) == opt_size, (len(opt), opt_size)

    def sect(name, vsize, va, rsize, ptr, ch):
        return struct.pack("<8sIIIIIIHHI", name, vsize, va, rsize, ptr, 0, 0, 0, 0, ch)

    sects = (sect(b".text", len(text_raw), text_va, text_rsize, text_ptr, 0x60000020)
             + sect(b".rdata", len(rdata_raw), rdata_va, rdata_rsize, rdata_ptr, 0x40000040)
             + sect(b".data", data_vsize if data_vsize is not None else max(len(data), 1), data_va, data_rsize,
                    data_ptr, 0xC0000040))
    img = bytearray()
    img += dos + stub
    img += (magic_pe + b"\x00\x00\x00\x00")[:4]
    img += file_hdr + opt + sects
    img += bytes(size_of_headers - len(img))
    img += text_raw + bytes(text_rsize - len(text_raw))
    img += rdata_raw + bytes(rdata_rsize - len(rdata_raw))
    img += data + bytes(data_rsize - len(data))
    m = {
        "dos": 0, "e_lfanew_field": 0x3C, "pe_sig": e_lfanew, "file_hdr": e_lfanew + 4, "machine": e_lfanew + 4,
        "nsections": e_lfanew + 6, "compile_stamp": e_lfanew + 8, "opt_hdr": e_lfanew + 24,
        "size_of_headers": e_lfanew + 24 + 60, "export_dd": e_lfanew + 24 + (112 if is64 else 96),
        "sections": e_lfanew + 24 + opt_size, "text": text_ptr, "rdata": rdata_ptr, "export_dir": rdata_ptr,
        "export_stamp": rdata_ptr + 4, "data": data_ptr, "end": len(img), "size_of_headers_value": size_of_headers,
    }
    return bytes(img), m


# ------------------------------------------------------------------------------------------- XorEncoded stage

def xorencode(plain: bytes, nonce: bytes, stub: bytes = b"", size_consistent: bool = True,
              size_delta: int = 1, trailing: bytes = b"") -> Tuple[bytes, int]:
    """stub | nonce | (len ^ nonce) | rolling 4-byte XOR of plain | trailing. Returns (bytes, nonce_offset)."""
    assert len(nonce) == 4
    enc = bytearray()
    prev = nonce
    for i in range(0, len(plain), 4):
        chunk = plain[i:i + 4]
        c = bytes(a ^ b for a, b in zip(chunk, prev))
        enc += c
        prev = c
    declared = len(plain) + len(trailing) if size_consistent else len(plain) + len(trailing) + size_delta
    size_field = bytes(a ^ b for a, b in zip(struct.pack("<I", declared & 0xFFFFFFFF), nonce))
    out = bytes(stub) + nonce + size_field + bytes(enc) + trailing
    return out, len(stub)


def xordecode_ref(raw: bytes, nonce_offset: int) -> bytes:
    """Reference decoder: plain[i] = enc[i] ^ enc[i-4], first dword against the nonce, to EOF."""
    nonce = raw[nonce_offset:nonce_offset + 4]
    enc = raw[nonce_offset + 8:]
    out = bytearray()
    prev = nonce
    for i in range(0, len(enc), 4):
        c = enc[i:i + 4]
        out += bytes(a ^ b for a, b in zip(c, prev))
        prev = c
    return bytes(out)


# ------------------------------------------------------------------------------------------- Guardrails

GUARD_BEACON_PATCH = 6144
GUARD_PATCH = 2048


def ref_payload_checksum(data: bytes) -> int:
    n = 0
    for i, b in enumerate(data):
        n = (n + b * (i % 3 + 1)) % 99999999
    return n


def build_guardrails(config_block: bytes, env_key: bytes, guard_settings: Sequence[Sequence],
                     checksum_override: Optional[int] = None, with_checksum: bool = True,
                     checksum_pos: Optional[int] = None) -> Tuple[bytes, Dict[str, object]]:
    """Returns the 6144+2048 protected area: masked beacon config followed by masked guard config."""
    cfg = config_block + bytes(GUARD_BEACON_PATCH - len(config_block))
    assert len(cfg) == GUARD_BEACON_PATCH
    checksum = ref_payload_checksum(cfg) + 1 if checksum_override is None else checksum_override
    masked_cfg = xor1(xor_tile(cfg, env_key), 0x2E)
    guard = bytearray()
    recs = []
    for opt, typ, value in guard_settings:
        if isinstance(value, str):
            value = bytes.fromhex(value)
        recs.append(encode_setting(opt, typ, value))
    if with_checksum:
        # the checksum option is normally the last one; any position after the first option is legal
        recs.insert(len(recs) if checksum_pos is None else max(1, min(checksum_pos, len(recs))), encode_setting(9, "int", checksum))
    guard += b"".join(recs)
    guard += b"\x00\x00"
    guard = bytes(guard) + bytes(GUARD_PATCH - len(guard))
    rev = masked_cfg[::-1]
    masked_guard = bytes(g ^ 0x8A ^ rev[i] for i, g in enumerate(guard))
    return masked_cfg + masked_guard, {"checksum": checksum, "unmasked_config": cfg, "unmasked_guard": guard,
                                       "masked_config": masked_cfg, "masked_guard": masked_guard}


# ------------------------------------------------------------------------------------------- ArtifactKit

def build_artifact(offset: int, payload: bytes, key: bytes, hints: bytes = b"\x00" * 8) -> bytes:
    return struct.pack("<II", offset + 16, len(payload)) + key + hints + xor_tile(payload, key)
