"""World F: assembling stored images from explicit specs (shared by C01, C08, C17) and their structure maps."""
from __future__ import annotations

import struct

from dst.core import hx, unhx
from dst.storage import builder


def block_bytes(blk) -> bytes:
    enc = builder.encode_settings(blk["settings"], terminator=True, pad_to=4096 if blk["pad"] == "full" else None)
    return builder.xor1(enc, blk["key"])


def make_filler(kind, seed, size, keybyte=0):
    if kind == "zeros":
        return bytes(size)
    # runs of ff ff ff make XorEncoded detection quadratic (every run within the marker search range - which extends
    # to the end of the chunk that contains offset 1024 - is a candidate validated with a 1024-offset MZ scan):
    # legal but minutes per run, so "ff" filler is ff ff fe repeated
    if kind == "ff" or (kind == "key" and keybyte == 0xFF):
        return (b"\xff\xff\xfe" * (size // 3 + 1))[:size]
    if kind == "key":
        return bytes([keybyte]) * size
    if kind == "text":
        return (b"The quick brown fox jumps over the lazy dog. " * (size // 45 + 1))[:size]
    data = bytearray(builder.prng_bytes(seed, size))
    if kind == "nearmiss":
        # first 6 of the 7 header bytes under several keys, sprinkled
        for j in range(0, max(0, size - 16), max(97, size // 12)):
            k = (seed + j) & 0xFF
            data[j:j + 6] = builder.xor1(builder.CONFIG_HEADER[:6], k)
            data[j + 6] = k ^ 0x55
    return bytes(data)


def _place(payload: bytearray, at: int, b: bytes) -> None:
    if at + len(b) > len(payload):
        payload += bytes(at + len(b) - len(payload))
    payload[at:at + len(b)] = b


def guard_area(g):
    """Masked beacon config (6144) + masked guard config (2048) for a guard spec; returns (bytes, info)."""
    cfg = builder.encode_settings(g["settings"], terminator=True, pad_to=None)
    cp = g.get("checksum_pos")
    area, info = builder.build_guardrails(cfg, unhx(g["env_key"]), g["guard"], checksum_pos=cp)
    if g.get("checksum_mode") == "zero":
        area, info = builder.build_guardrails(cfg, unhx(g["env_key"]), g["guard"], checksum_override=0, checksum_pos=cp)
    elif g.get("checksum_mode") == "absent":
        area, info = builder.build_guardrails(cfg, unhx(g["env_key"]), g["guard"], with_checksum=False)
    elif g.get("checksum_delta"):
        area, info = builder.build_guardrails(cfg, unhx(g["env_key"]), g["guard"],
                                              checksum_override=(info["checksum"] + g["checksum_delta"]) & 0xFFFFFFFF, checksum_pos=cp)
    return area, info


def build_payload(plan) -> bytes:
    payload = bytearray(make_filler(plan["filler"]["kind"], plan["filler"]["seed"], plan["size"],
                                    plan["filler"].get("key", 0)))
    for blk in plan.get("blocks", []):
        _place(payload, blk["at"], block_bytes(blk))
    for g in plan.get("guards", []):
        area, _ = guard_area(g)
        _place(payload, g["at"], area)
    for a in plan.get("artifacts", []):
        # offset is self-referential w.r.t. the *file*, so `file_at` is the absolute offset the header will have
        hdr = builder.build_artifact(a["file_at"], unhx(a["payload"]), unhx(a["key"]), unhx(a.get("hints", "00" * 8)))
        _place(payload, a["at"], hdr)
    if plan.get("cut") is not None:
        del payload[plan["cut"]:]
    return bytes(payload)


def build_plain(plan):
    """The stage before XorEncoding: (plain image, structure map of the plain image)."""
    payload = build_payload(plan)
    c = plan["container"]
    lay = {}
    base = 0
    if c != "raw":
        pe = plan["pe"]
        img, m = builder.build_pe(arch=pe["arch"], e_lfanew=pe["e_lfanew"], compile_stamp=pe["compile"],
                                  export_stamp=pe["export"], data=payload, text_size=pe["text"], filler_seed=pe["seed"],
                                  num_rva=pe.get("nrva", 16))
        pre = builder.prng_bytes(pe["seed"] + 3, pe["prepend"]).replace(b"MZ", b"mz")
        plain = pre + img + unhx(pe.get("append", ""))
        for k, v in m.items():
            if k != "size_of_headers_value":
                lay["pe." + k] = len(pre) + v
        base = len(pre) + m["data"]
    else:
        plain = payload
    for i, blk in enumerate(plan.get("blocks", [])):
        lay[f"block{i}"] = base + blk["at"]
        off = base + blk["at"]
        for j, rec in enumerate(blk["settings"][:3]):
            lay[f"block{i}.rec{j}"] = off
            off += len(builder.encode_settings([rec], terminator=False, pad_to=None))
        lay[f"block{i}.end"] = base + blk["at"] + len(builder.encode_settings(blk["settings"], pad_to=None))
    for i, g in enumerate(plan.get("guards", [])):
        lay[f"guard{i}.cfg"] = base + g["at"]
        lay[f"guard{i}.marker"] = base + g["at"] + builder.GUARD_BEACON_PATCH - 6
        lay[f"guard{i}.guardcfg"] = base + g["at"] + builder.GUARD_BEACON_PATCH
        lay[f"guard{i}.end"] = base + g["at"] + builder.GUARD_BEACON_PATCH + builder.GUARD_PATCH
    for i, a in enumerate(plan.get("artifacts", [])):
        lay[f"artifact{i}"] = base + a["at"]
    lay["end"] = len(plain)
    return plain, lay


def build_image(plan):
    """Returns (raw image bytes, decoded view or None)."""
    plain, _ = build_plain(plan)
    if plan["container"] != "xorpe":
        return plain, None
    x = plan["xor"]
    raw, _ = builder.xorencode(plain, unhx(x["nonce"]), unhx(x["stub"]), size_consistent=x.get("variant") != "marker")
    return raw, plain


def pe_data_offset(pe):
    _, m = builder.build_pe(arch=pe["arch"], e_lfanew=pe["e_lfanew"], export_stamp=pe["export"], data=b"x",
                            text_size=pe["text"], filler_seed=pe["seed"])
    return pe["prepend"] + m["data"]


