"""Common machinery: seeds, counter-based draws, event log + digest, results, shrinking helpers.

Nothing in this file imports the code under test.
"""
from __future__ import annotations

import copy
import hashlib
import json
import random
from collections import Counter
from typing import Any, Callable, Iterator, List, Optional, Sequence, Tuple

FORMAT = 1
CLAIMED = ["C01", "C04", "C05", "C06", "C07", "C08", "C09", "C11", "C14", "C15", "C16", "C17", "C19"]


# --------------------------------------------------------------------------- seeds / draws

def run_seed_for(prop: str, verif_seed: int, index: int) -> str:
    """One integer decides everything: the 16-hex-digit seed of run `index` of property `prop`."""
    return hashlib.sha256(f"dst|{prop}|{verif_seed}|{index}".encode()).hexdigest()[:16]


def plan_rng(run_seed: str) -> random.Random:
    """PRNG used for *plan generation only* (its output is written into the plan explicitly)."""
    return random.Random(int(run_seed, 16))


def draw(run_seed: str, stream: str, *key: Any) -> int:
    """Counter-based draw used at *execution* time: a pure function of (run seed, stream, key).

    Deleting an operation from a plan does not shift the draws of the remaining ones, which is what
    keeps minimisation stable.
    """
    h = hashlib.sha256(("|".join([run_seed, stream] + [str(k) for k in key])).encode()).digest()
    return int.from_bytes(h[:8], "big")


def draw_range(run_seed: str, stream: str, lo: int, hi: int, *key: Any) -> int:
    """Uniform-ish integer in [lo, hi]."""
    if hi <= lo:
        return lo
    return lo + draw(run_seed, stream, *key) % (hi - lo + 1)


# --------------------------------------------------------------------------- bytes <-> json

def hx(b: Optional[bytes]) -> Optional[str]:
    return None if b is None else bytes(b).hex()


def unhx(s: Optional[str]) -> Optional[bytes]:
    return None if s is None else bytes.fromhex(s)


# --------------------------------------------------------------------------- event log / results

class EventLog:
    """Event log folded into a SHA-256 digest. Logging never draws and never reads a clock."""

    __slots__ = ("h", "n", "keep", "lines", "shape")

    def __init__(self, keep: bool = False):
        self.h = hashlib.sha256()
        self.n = 0
        self.keep = keep
        self.lines: List[str] = []
        self.shape = hashlib.sha256()  # hash of (actor, kind) only: "interleaving shape"

    def log(self, kind: str, *fields: Any) -> None:
        parts = [kind]
        for f in fields:
            if isinstance(f, (bytes, bytearray)):
                f = bytes(f)
                parts.append(f.hex() if len(f) <= 24 else "sha:" + hashlib.sha256(f).hexdigest()[:16] + f":{len(f)}")
            else:
                parts.append(repr(f))
        line = f"{self.n} " + " ".join(parts)
        self.n += 1
        self.h.update(line.encode())
        self.h.update(b"\n")
        self.shape.update(kind.encode() + b";")
        if self.keep:
            self.lines.append(line)

    def digest(self) -> str:
        return self.h.hexdigest()

    def shape_digest(self) -> str:
        return self.shape.hexdigest()[:16]


class Violation:
    __slots__ = ("sig", "msg", "plan")

    def __init__(self, sig: Sequence[str], msg: str, plan: Optional[dict] = None):
        self.sig = tuple(str(s) for s in sig)
        self.msg = msg
        self.plan = plan  # optional narrower plan that reproduces just this violation

    def to_json(self) -> dict:
        return {"sig": list(self.sig), "msg": self.msg}


class Result:
    """Outcome of executing one plan."""

    def __init__(self) -> None:
        self.log = EventLog()
        self.violations: List[Violation] = []
        self.faults: Counter = Counter()
        self.probes: Counter = Counter()
        self.nontrivial: bool = False
        self.cases: int = 1          # number of individual cases evaluated inside this run
        self.sim_time_us: int = 0
        self.discarded: Optional[str] = None  # run discarded as out-of-domain/ambiguous (reason)
        self.extra: Counter = Counter()

    def violate(self, sig: Sequence[str], msg: str, plan: Optional[dict] = None) -> None:
        # only the first violation per signature is kept per run
        sig = tuple(str(s) for s in sig)
        for v in self.violations:
            if v.sig == sig:
                return
        self.violations.append(Violation(sig, msg, plan))
        self.log.log("VIOLATION", "/".join(sig))

    def summary(self) -> dict:
        return {
            "digest": self.log.digest(),
            "shape": self.log.shape_digest(),
            "violations": [v.to_json() for v in self.violations],
            "faults": dict(self.faults),
            "probes": dict(self.probes),
            "nontrivial": self.nontrivial,
            "cases": self.cases,
            "sim_time_us": self.sim_time_us,
            "discarded": self.discarded,
        }


class HarnessError(Exception):
    """Something is wrong with the simulator / model, not with the code under test."""


# --------------------------------------------------------------------------- shrinking helpers

def _get(plan: Any, path: Sequence[Any]) -> Any:
    for p in path:
        plan = plan[p]
    return plan


def _set(plan: Any, path: Sequence[Any], value: Any) -> Any:
    new = copy.deepcopy(plan)
    cur = new
    for p in path[:-1]:
        cur = cur[p]
    cur[path[-1]] = value
    return new


def shrink_list(plan: dict, path: Sequence[Any], min_len: int = 0) -> Iterator[dict]:
    """ddmin-style candidates: drop halves, quarters, ..., single elements of the list at `path`."""
    try:
        lst = _get(plan, path)
    except (KeyError, IndexError, TypeError):
        return
    if not isinstance(lst, list):
        return
    n = len(lst)
    if n <= min_len:
        return
    chunk = n // 2
    while chunk >= 1:
        i = 0
        while i < n:
            new = lst[:i] + lst[i + chunk:]
            if len(new) >= min_len and len(new) < n:
                yield _set(plan, path, new)
            i += chunk
        chunk //= 2


def shrink_int(plan: dict, path: Sequence[Any], toward: int = 0) -> Iterator[dict]:
    try:
        v = _get(plan, path)
    except (KeyError, IndexError, TypeError):
        return
    if not isinstance(v, int) or isinstance(v, bool) or v == toward:
        return
    seen = set()
    for cand in (toward, (v + toward) // 2, v - 1 if v > toward else v + 1):
        if cand != v and cand not in seen:
            seen.add(cand)
            yield _set(plan, path, cand)


def shrink_hex(plan: dict, path: Sequence[Any], min_len: int = 0) -> Iterator[dict]:
    """Shrink a hex-encoded byte string: shorter (drop halves / tail / head), then zero bytes."""
    try:
        s = _get(plan, path)
    except (KeyError, IndexError, TypeError):
        return
    if not isinstance(s, str):
        return
    b = bytes.fromhex(s)
    n = len(b)
    if n > min_len:
        for cand in (b[: max(min_len, n // 2)], b[n - max(min_len, n // 2):], b[:-1], b[1:]):
            if len(cand) >= min_len and len(cand) < n:
                yield _set(plan, path, cand.hex())
    if any(b):
        yield _set(plan, path, (b"\x00" * n).hex())


def minimise(plan: dict, sig: Tuple[str, ...], execute: Callable[[dict], "Result"],
             candidates: Callable[[dict], Iterator[dict]], max_execs: int = 400,
             max_seconds: float = 60.0) -> Tuple[dict, int]:
    """Greedy delta debugging: take the first candidate that still shows the same signature, restart."""
    import time as _time  # wall clock used only to bound the shrinker, never inside a run
    t0 = _time.monotonic()
    execs = 0
    improved = True
    while improved and execs < max_execs and _time.monotonic() - t0 < max_seconds:
        improved = False
        for cand in candidates(plan):
            if execs >= max_execs or _time.monotonic() - t0 >= max_seconds:
                break
            execs += 1
            try:
                r = execute(cand)
            except HarnessError:
                continue
            except Exception:
                continue
            if any(v.sig == sig for v in r.violations):
                plan = cand
                improved = True
                break
    return plan, execs


def plan_size(plan: Any) -> int:
    return len(json.dumps(plan, sort_keys=True))


def canonical(plan: Any) -> str:
    return json.dumps(plan, sort_keys=True, separators=(",", ":"))


# --------------------------------------------------------------------------- library exceptions inside a run

def _innermost_library_frame(tb) -> Optional[str]:
    import os
    import traceback
    name = None
    last_is_lib = False
    for fs in traceback.extract_tb(tb):
        fn = fs.filename.replace("\\", "/")
        last_is_lib = "dissect/cobaltstrike/" in fn
        if last_is_lib:
            name = f"{os.path.basename(fn)}:{fs.name}"
    return name


class RunTimeout(BaseException):
    """Raised by the per-run wall-clock alarm (World F properties only): a run that does no I/O at all and never returns
    cannot be seen by the reader-call budget."""


DEBUG_LOG_ON = False


def set_debug_logging(on: bool) -> None:
    """Swarm-style configuration choice: one run in eight executes with the library's loggers enabled at DEBUG level (records
    go to a null handler), the others with logging as an application that never configured it. Log calls that are guarded by
    isEnabledFor() / evaluated lazily are code like any other; what a function returns may not depend on the log level."""
    global DEBUG_LOG_ON
    import logging
    lg = logging.getLogger("dissect.cobaltstrike")
    DEBUG_LOG_ON = on
    if on:
        logging.disable(logging.NOTSET)
        lg.setLevel(logging.DEBUG)
        lg.propagate = False
        if not lg.handlers:
            lg.addHandler(logging.NullHandler())
    else:
        lg.setLevel(logging.NOTSET)
        lg.propagate = True


def debug_logging_for(plan: dict) -> bool:
    rs = str(plan.get("run_seed", "") or "")
    try:
        return int(rs[-2:], 16) % 8 == 3
    except ValueError:
        return False


def guarded(prop_id: str, execute: Callable[[dict], "Result"], wall_s: Optional[int] = None) -> Callable[[dict], "Result"]:
    """Wrap a property's execute(): an exception that escapes from code under test at a place where the harness expected
    none (the workload is in the property's domain, every expected exception is caught where it is expected) means the
    run cannot show the property - it is reported as a violation of that property, with the exception type and the
    library function as signature. Exceptions raised by harness code itself stay harness errors."""
    def _alarm(signum, frame):
        raise RunTimeout()

    def run(plan: dict) -> "Result":
        import signal
        import threading
        use_alarm = bool(wall_s) and threading.current_thread() is threading.main_thread()
        if use_alarm:
            old = signal.signal(signal.SIGALRM, _alarm)
            signal.alarm(int(wall_s))
        try:
            set_debug_logging(debug_logging_for(plan))
            r_ = execute(plan)
            if DEBUG_LOG_ON:
                r_.probes["run_with_debug_logging"] += 1
            return r_
        except RunTimeout:
            res = Result()
            res.violate((prop_id, "no_termination", "wall_clock"),
                        f"the run did not finish within {wall_s} s of wall-clock time (ordinary runs take milliseconds to a few "
                        f"seconds) and did not exhaust the reader-call budget either: a loop that performs no I/O")
            return res
        except HarnessError:
            raise
        except Exception as e:  # noqa: BLE001
            where = _innermost_library_frame(e.__traceback__)
            if where is None:
                raise
            res = Result()
            res.violate((prop_id, "library_raised_in_run", type(e).__name__, where),
                        f"the code under test raised {type(e).__name__}: {e!r:.300} in {where} at a point of the run where the "
                        f"workload is in the property's domain and no exception is expected")
            return res
        finally:
            if use_alarm:
                signal.alarm(0)
                signal.signal(signal.SIGALRM, old)
    return run
