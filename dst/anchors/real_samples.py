"""Anchor: the independent payload builder reproduces the repository's REAL samples.

 * every XorEncoded sample: decode with the reference rolling-XOR decoder, re-encode with the builder using the
   sample's own stub and nonce -> byte-identical file;
 * every sample: the reference scanner finds the configuration block the repository's tests expect (key, offset);
 * the Guardrails sample: re-masking the recovered configuration with the recovered environmental key and the stored
   guard settings reproduces masked_beacon_config and masked_guard_config byte for byte, and the reference checksum
   equals the stored one."""
import struct

from dst.props.C08 import SAMPLES, load_sample
from dst.storage import builder


def _find_nonce_offset(raw):
    # size relation: u32le(nonce ^ sizefield) + i + 8 == len(raw), confirmed by the ff ff ff marker
    for i in range(0, 1024):
        n, s = raw[i:i + 4], raw[i + 4:i + 8]
        if len(s) < 4:
            break
        if struct.unpack("<I", bytes(a ^ b for a, b in zip(n, s)))[0] + i + 8 == len(raw) and raw[i - 3:i] == b"\xff\xff\xff":
            return i
    return None


def check():
    n_xor = 0
    found = 0
    for name in SAMPLES:
        raw = load_sample(name)
        no = _find_nonce_offset(raw)
        view = raw
        if no is not None:
            plain = builder.xordecode_ref(raw, no)
            again, no2 = builder.xorencode(plain, raw[no:no + 4], raw[:no])
            assert again == raw and no2 == no, f"{name}: re-encoding differs"
            assert plain[:2] == b"MZ" or b"MZ" in plain[:1024], f"{name}: decoded stage has no MZ"
            n_xor += 1
            view = plain
        for key in (0x69, 0x2E, 0xAF, 0xCC):
            p = view.find(builder.xor1(builder.CONFIG_HEADER, key))
            if p >= 0:
                recs = builder.ref_decode_settings(builder.xor1(view[p:p + 4096], key))
                assert recs and recs[0][0] == 1 and len(recs) > 10, f"{name}: implausible settings"
                found += 1
                break
    assert n_xor == 5, f"expected 5 XorEncoded samples, found {n_xor}"
    assert found == 6, f"expected 6 plain configuration blocks, found {found}"
    # Guardrails sample
    g = load_sample("124552cf674b362e0c916ab79b9e7a56")
    key = b"desktop-r4vgq8o"
    hit = None
    starts = [bytes(x ^ 0x8A for x in s) for s in (b"\x00\x05\x00\x01\x00\x02", b"\x00\x06\x00\x01\x00\x02",
                                                      b"\x00\x07\x00\x01\x00\x02", b"\x00\x08\x00\x02\x00\x04")]
    for off in range(6138, len(g) - 12):
        a, b = g[off:off + 6], g[off + 6:off + 12]
        if bytes(x ^ y for x, y in zip(a[::-1], b)) in starts:
            hit = off
            break
    assert hit is not None, "guard marker not found by the reference"
    cfg_off = hit + 6 - 6144
    masked_cfg = g[cfg_off:cfg_off + 6144]
    masked_guard = g[cfg_off + 6144:cfg_off + 6144 + 2048]
    unmasked = builder.xor1(builder.xor_tile(masked_cfg, key), 0x2E)
    assert unmasked[:7] == builder.CONFIG_HEADER, "unmasked Guardrails configuration has no config header"
    rev = masked_cfg[::-1]
    guard = bytes(x ^ 0x8A ^ rev[i] for i, x in enumerate(masked_guard))
    stored = None
    p = 0
    recs = []
    while guard[p:p + 2] != b"\x00\x00":
        o, t, ln = struct.unpack_from(">HHH", guard, p)
        recs.append([o, {1: "short", 2: "int", 3: "ptr"}[t], guard[p + 6:p + 6 + ln]])
        if o == 9:
            stored = int.from_bytes(guard[p + 6:p + 10], "big")
        p += 6 + ln
    assert stored == builder.ref_payload_checksum(unmasked) + 1 == 0xA5AD1, (stored, builder.ref_payload_checksum(unmasked) + 1)
    # re-mask with the builder: config bytes are taken verbatim (the real sample is not zero padded)
    remasked = builder.xor1(builder.xor_tile(unmasked, key), 0x2E)
    assert remasked == masked_cfg
    gs = [[o, t, (int.from_bytes(v, "big") if t != "ptr" else v.hex())] for o, t, v in recs if o != 9]
    area, info = builder.build_guardrails(unmasked, key, gs)
    assert info["checksum"] == stored
    assert area[:6144] == masked_cfg, "builder's masked configuration differs from the sample"
    assert area[6144:6144 + p + 2] == masked_guard[:p + 2], "builder's masked guard configuration differs from the sample"
    return f"{n_xor} XorEncoded samples re-encoded byte-identically; Guardrails sample re-masked (checksum {stored:#x})"
