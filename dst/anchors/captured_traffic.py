"""Anchor: the reference codec (refcodec) decodes REAL captured Cobalt Strike traffic - the three messages quoted in
the repository's tests/test_c2.py - without importing dissect.cobaltstrike, and obtains the values the repository's own
tests assert. This is what entitles the reference team server to act as the independent peer."""
import ast
import os
import re

from Crypto.PublicKey import RSA

from dst.session import refcodec as rc


def _load():
    here = None
    for root in (os.environ.get("VERIF_REPO"), "/repo"):
        if root and os.path.exists(os.path.join(root, "tests", "test_c2.py")):
            here = os.path.join(root, "tests", "test_c2.py")
            break
    src = open(here).read()
    out = {}
    for name in ("http_request_checkin", "http_response_task_file_list", "http_post_callback"):
        m = re.search(r"^%s = \((.*?)^\)" % name, src, re.S | re.M)
        out[name] = ast.literal_eval("(" + m.group(1) + ")")
    m = re.search(r"rsa_private = RSA.construct\(\s*\((.*?)\)\s*\)", src, re.S)
    nums = [int(x) for x in re.findall(r"\d{5,}", m.group(1))]
    out["rsa"] = RSA.construct(tuple(nums[:3]))
    return out


def check():
    d = _load()
    get_steps = [["build", "metadata"], ["base64"], ["header", b"Cookie".hex()]]
    post_steps = [["build", "id"], ["parameter", b"id".hex()], ["build", "output"], ["print"]]
    server_steps = [["print"]]
    req = rc.parse_wire(d["http_request_checkin"])
    vals = rc.ref_decode_request(get_steps, req.path, req.params, req.headers, req.body, [b"/ptj"])
    pt = rc.rsa_decrypt(vals["metadata"], d["rsa"])
    assert pt is not None, "metadata did not decrypt"
    meta = rc.parse_metadata(pt)
    assert meta["magic"] == 0xBEEF and meta["bid"] == 105175268 and meta["pid"] == 7292, meta
    assert meta["aes_rand"] == bytes.fromhex("caeab4f452fe41182d504aa24966fbd0"), meta["aes_rand"].hex()
    aes, hm = rc.derive_keys(meta["aes_rand"])
    resp = rc.parse_wire(d["http_response_task_file_list"])
    out = rc.ref_decode_response_body(server_steps, resp.body)
    task = rc.parse_task(rc.ref_decrypt(out[:-16], out[-16:], aes, hm))
    assert task[2] == 53, task            # COMMAND_FILE_LIST
    post = rc.parse_wire(d["http_post_callback"])
    vals = rc.ref_decode_request(post_steps, post.path, post.params, post.headers, post.body, [b"/submit.php"])
    assert vals["id"] == b"242569267"
    frames = rc.split_frames(vals["output"])
    assert len(frames) == 1
    cb = rc.parse_callback(rc.ref_decrypt(frames[0][0], frames[0][1], aes, hm))
    assert cb[2] in range(0, 40) and cb[1] == len(cb[3]), cb
    return f"bid={meta['bid']} task_cmd={task[2]} callback={cb[2]} ({len(cb[3])} bytes)"
