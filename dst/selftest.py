"""Self-tests of the machinery itself: anchors (setup), determinism, schema."""
from __future__ import annotations

import json
import os
import subprocess
import sys

HERE = os.path.dirname(os.path.abspath(__file__))
VERIF = os.path.dirname(HERE)


def anchors() -> int:
    """setup_cmd: everything needed is importable offline and the reference models agree with real artefacts."""
    import importlib
    ok = True
    for mod in ("dissect.cobaltstrike.beacon", "dissect.cobaltstrike.c2", "dissect.cobaltstrike.client",
                "dissect.cobaltstrike.c2profile", "dissect.cobaltstrike.guardrails", "dissect.cobaltstrike.artifact",
                "dissect.cobaltstrike.xordecode", "dissect.cobaltstrike.pe", "httpx", "Crypto.Cipher.AES", "lark"):
        try:
            importlib.import_module(mod)
        except Exception as e:  # pragma: no cover
            print(f"ANCHOR import {mod}: FAILED {e!r}")
            ok = False
    for name in sorted(os.listdir(os.path.join(HERE, "anchors"))) if os.path.isdir(os.path.join(HERE, "anchors")) else []:
        if not name.endswith(".py") or name.startswith("_"):
            continue
        m = importlib.import_module(f"dst.anchors.{name[:-3]}")
        try:
            msg = m.check()
            print(f"ANCHOR {name[:-3]}: ok {msg or ''}")
        except Exception as e:
            import traceback
            traceback.print_exc()
            print(f"ANCHOR {name[:-3]}: FAILED {e!r}")
            ok = False
    print("anchors:", "ok" if ok else "FAILED")
    return 0 if ok else 1


def determinism(args) -> int:
    """For many run seeds per property: execute each run in two fresh interpreters under different hash seeds
    and worker layouts and diff the digests."""
    from dst.core import CLAIMED
    props = [p for p in CLAIMED if os.path.exists(os.path.join(HERE, "props", f"{p}.py"))]
    n = args.runs or 200
    bad = 0
    for pid in props:
        idx = ",".join(str(i) for i in range(n))
        outs = []
        for hs, seed in (("0", args.seed), ("12345", args.seed), ("777", args.seed)):
            env = dict(os.environ, PYTHONHASHSEED=hs, VERIF_SEED=str(seed))
            p = subprocess.run([sys.executable, os.path.join(HERE, "run.py"), pid, "--indices", idx, "--sys-indices", "0,1,2"],
                               capture_output=True, text=True, env=env)
            try:
                outs.append(json.loads(p.stdout.strip().splitlines()[-1]))
            except Exception:
                print(f"DETERMINISM {pid}: run failed\n{p.stdout[-500:]}{p.stderr[-1500:]}")
                bad += 1
                outs.append({})
        diff = [k for k in outs[0] if any(o.get(k) != outs[0][k] for o in outs[1:])]
        print(f"DETERMINISM {pid}: runs={len(outs[0])} mismatches={len(diff)} {diff[:5]}")
        bad += len(diff)
    return 0 if bad == 0 else 2


def schema() -> int:
    try:
        import jsonschema
    except ImportError:
        print("jsonschema not importable in this interpreter; run with python3-vt")
        return 2
    bad = 0
    ev_schema = json.load(open("/root/.vp/EVIDENCE.schema.json"))
    for name in sorted(os.listdir(os.path.join(VERIF, "evidence"))):
        doc = json.load(open(os.path.join(VERIF, "evidence", name)))
        try:
            jsonschema.validate(doc, ev_schema)
            print("ok", name)
        except Exception as e:
            bad += 1
            print("INVALID", name, str(e)[:300])
    try:
        jsonschema.validate(json.load(open(os.path.join(VERIF, "MANIFEST.json"))),
                            json.load(open("/root/.vp/MANIFEST.schema.json")))
        print("ok MANIFEST.json")
    except Exception as e:
        bad += 1
        print("INVALID MANIFEST.json", str(e)[:300])
    return 1 if bad else 0


def main(what, args) -> int:
    if what == "anchors":
        return anchors()
    if what == "determinism":
        return determinism(args)
    if what == "schema":
        return schema()
    print("usage: run.py selftest anchors|determinism|schema")
    return 2
