"""C05 — packet encryption round-trips and is authenticated before decryption (World S, fault enumeration).

Packets (plaintext lengths of every residue mod 16, random keys/IVs) are encrypted by the library, compared with
a reference cipher, and then attacked with EVERY single-bit flip and EVERY truncation of ciphertext and signature,
with wrong and missing HMAC keys; framing of packet streams is split back. 15% of the runs are full World S
sessions in which every packet on the simulated wire gets the same treatment at the peer and corrupted messages
must never yield a different packet.
"""
from __future__ import annotations

import struct

from dst import core
from dst.core import Result, hx, unhx
from dst.props import _session
from dst.session import refcodec as rc
from dst.session import sessiongen

ID = "C05"
LEVEL = "fault_enumeration"
RUNS = {"quick": 2500, "thorough": 50000}
CHUNK = {"quick": 20, "thorough": 100}
PROBES = [f"residue_{i}" for i in range(16)] + ["custom_iv", "multi_frame_stream", "empty_plaintext", "keyflip_sweep",
                                                "session_population", "verify_false_no_hmac", "large_packet", "large_packet_multiple_of_64k",
                                                "keys_from_seed", "keys_from_metadata", "zero_iv", "frame_length_256"]
RULE = ("seeded plans: 6-14 packets with plaintext length 0..80 (every residue mod 16 is drawn; 30% of the plans add one large "
        "packet of 81-700 bytes or at a boundary length (frame length 256, 64 KiB multiples, ...) up to 256 KiB with a sampled fault set), random 16-byte AES/HMAC "
        "keys and IVs (default IV half of the time; all-zero / all-ones IVs among the given ones); session keys from a seed and from the metadata of one beacon id; per packet EVERY single-bit flip of ciphertext||signature, EVERY "
        "truncation of ciphertext and of signature, 8 random wrong HMAC keys, missing key (None, b''), and for one packet "
        "per plan every single-bit change of the HMAC key; 1-5 packets framed into client streams and single-packet "
        "server streams are split back. 15% full sessions. non-trivial = every exchange plan (each enumerates its fault "
        "space) and sessions with a task and a callback; distinct = distinct digest")
ASSUMPTIONS = [
    "truncation faults cut ciphertext or signature, never the 4-byte length prefix (the property names those two)",
    "the AES-only, verify_hmac=False decoder is exempt from corruption faults",
    "trusted: PyCryptodome AES, stdlib hmac/hashlib as the reference cipher",
]
REAL = ["c2.pad", "c2.encrypt_data/decrypt_data", "c2.encrypt_packet/decrypt_packet", "c2.EncryptedPacket.dumps/raise_for_signature",
        "c2.ClientC2Data/ServerC2Data.iter_encrypted_packets"]
STUB = ["reference cipher (PyCryptodome AES-CBC + stdlib HMAC-SHA256)", "fault enumerator"]
EXHAUSTIVE = {"quick": True, "thorough": True}
EXHAUSTIVE_SCOPE = ("per packet of up to 80 plaintext bytes the single-bit-flip and truncation fault space of ciphertext and "
                    "signature is enumerated completely; the packet population (plaintexts, keys, IVs) is sampled, and the one "
                    "large packet (255 bytes - 256 KiB, boundary lengths) that 30% of the plans carry gets a sampled fault set")


BIG_LENGTHS = [223, 224, 231, 239, 240, 255, 256, 257, 1023, 1024, 1025, 4095, 4096, 4097, 16383, 16384, 16385, 32768, 65519, 65520, 65535, 65536, 65537,
               65552, 131071, 131072, 131073, 196608, 262144]


def _iv(rng) -> bytes:
    # "for all 16-byte IVs": mostly random, some at the edges of the value space
    r = rng.random()
    if r < 0.08:
        return bytes(16)
    if r < 0.12:
        return b"\xff" * 16
    if r < 0.16:
        return bytes(15) + b"\x01"
    return bytes(rng.getrandbits(8) for _ in range(16))


def generate(rng, tier, index):
    if rng.random() < 0.15:
        return sessiongen.gen_session(rng, ID, tier)
    pkts = []
    # half of the plans: one session - every packet under the same AES/HMAC key (and IV)
    shared = None
    if rng.random() < 0.5:
        shared = (hx(bytes(rng.getrandbits(8) for _ in range(16))), hx(bytes(rng.getrandbits(8) for _ in range(16))),
                  None if rng.random() < 0.5 else hx(_iv(rng)))
    for _ in range(rng.randint(6, 14)):
        n = rng.choice([rng.randint(0, 80), rng.randint(0, 80), 16 * rng.randint(0, 4) + rng.randint(0, 15), 0, 16, 15, 17])
        pkts.append({"pt": hx(bytes(rng.getrandbits(8) for _ in range(n))),
                     "aes": hx(bytes(rng.getrandbits(8) for _ in range(16))),
                     "hmac": hx(bytes(rng.getrandbits(8) for _ in range(16))),
                     "iv": None if rng.random() < 0.5 else hx(_iv(rng)),
                     "wrong_keys": [hx(bytes(rng.getrandbits(8) for _ in range(16))) for _ in range(8)]})
        if rng.random() < 0.1:
            # keys are 16 arbitrary bytes: the ends of the range and text-like values are keys like any other
            pkts[-1][rng.choice(["hmac", "hmac", "aes"])] = hx(rng.choice([bytes(16), b"\xff" * 16, bytes(15) + b"\x01", b"\x80" + bytes(15),
                                                                         b"0" * 16, b" " * 16, b"\x00" * 8 + b"\xff" * 8]))
        if shared:
            pkts[-1]["aes"], pkts[-1]["hmac"], pkts[-1]["iv"] = shared
    if rng.random() < 0.3:
        # one large packet per plan at a boundary length (powers of two and their neighbours, multiples of 4 KiB / 64 KiB):
        # its plaintext is described by (seed, length), its fault space is sampled, not enumerated
        n = rng.choice(BIG_LENGTHS + [4096 * rng.randint(1, 48), 65536 * rng.randint(1, 4) + rng.choice([-16, -1, 0, 0, 1, 15, 16]),
                                      rng.randint(81, 700), rng.randint(81, 700), 224 + rng.randint(0, 15), 65504 + rng.randint(0, 15)])
        pkts.append({"pt_gen": {"seed": rng.getrandbits(24), "len": n}, "pt": None,
                     "aes": hx(bytes(rng.getrandbits(8) for _ in range(16))),
                     "hmac": hx(bytes(rng.getrandbits(8) for _ in range(16))),
                     "iv": None if rng.random() < 0.5 else hx(bytes(rng.getrandbits(8) for _ in range(16))),
                     "wrong_keys": [hx(bytes(rng.getrandbits(8) for _ in range(16))) for _ in range(2)],
                     "sampled_bits": [rng.getrandbits(30) for _ in range(48)]})
    streams = []
    for _ in range(rng.randint(1, 4)):
        streams.append([rng.randrange(len(pkts)) for _ in range(rng.randint(1, 5))])
    return {"world": "S-packets", "packets": pkts, "streams": streams, "keyflip_packet": rng.randrange(len(pkts))}


def execute(plan: dict) -> Result:
    if plan.get("world") != "S-packets":
        r = _session.execute_session(plan, ID)
        r.probes["session_population"] += 1
        return r
    from dissect.cobaltstrike.c2 import (BeaconKeys, ClientC2Data, EncryptedPacket, ServerC2Data, decrypt_packet,
                                         encrypt_packet, pad)
    res = Result()
    res.nontrivial = True
    res.cases = 0
    eps = []
    for pi, p in enumerate(plan["packets"]):
        big = p.get("pt_gen")
        if big:
            from dst.storage.builder import prng_bytes
            pt = prng_bytes(big["seed"], big["len"])
            res.probes["large_packet"] += 1
            if big["len"] % 65536 == 0:
                res.probes["large_packet_multiple_of_64k"] += 1
        else:
            pt = unhx(p["pt"])
        aes, hm = unhx(p["aes"]), unhx(p["hmac"])
        iv = unhx(p["iv"]) if p["iv"] else None
        kw = {"iv": iv} if iv is not None else {}
        riv = iv if iv is not None else b"abcdefghijklmnop"
        res.probes[f"residue_{len(pt) % 16}"] += 1
        if iv is not None:
            res.probes["custom_iv"] += 1
            if not any(iv):
                res.probes["zero_iv"] += 1
        if 224 <= len(pt) <= 239:
            res.probes["frame_length_256"] += 1
        if not pt:
            res.probes["empty_plaintext"] += 1
        k = 16 - len(pt) % 16
        padded = pt + b"A" * k
        if pi < 6 and not big:
            # session keys as the library derives them from ONE seed per plan, under this packet's IV
            import hashlib
            # (every third packet: another seed; odd packets: through the metadata of ONE beacon id - a restarted Beacon keeps
            # its id and draws a new seed)
            seed_ = hashlib.sha256(plan["packets"][0]["aes"].encode() + (b"+" if pi % 3 == 2 else b"")).digest()[:16]
            d_ = hashlib.sha256(seed_).digest()
            try:
                if pi % 2:
                    from dissect.cobaltstrike.c_c2 import BeaconMetadata
                    md_ = BeaconMetadata(magic=0xBEEF, bid=0x1234ABCD, aes_rand=seed_)
                    ks = BeaconKeys.from_beacon_metadata(md_, iv=riv) if iv is not None else BeaconKeys.from_beacon_metadata(md_)
                    res.probes["keys_from_metadata"] += 1
                else:
                    ks = BeaconKeys.from_aes_rand(seed_, iv=riv) if iv is not None else BeaconKeys.from_aes_rand(seed_)
                if (ks.aes_key, ks.hmac_key, ks.iv) != (d_[:16], d_[16:], riv):
                    res.violate(("C05", "session_keys_from_seed", "iv" if ks.iv != riv else "keys"),
                                f"BeaconKeys.from_aes_rand(seed, iv={'given' if iv else 'default'}) -> iv {ks.iv!r}, expected {riv!r}; keys "
                                f"{'ok' if (ks.aes_key, ks.hmac_key) == (d_[:16], d_[16:]) else 'differ from SHA-256 halves'}")
                else:
                    e2 = encrypt_packet(pt, **ks._asdict())
                    w2 = rc.ref_encrypt(pt + b"A" * (16 - len(pt) % 16), d_[:16], d_[16:], riv)
                    if (e2.ciphertext, e2.signature) != w2:
                        res.violate(("C05", "ciphertext_differs", "session_keys_from_seed"), "encrypt_packet(**BeaconKeys.from_aes_rand(..)._asdict()) is not AES-CBC/HMAC under those keys and IV")
                res.probes["keys_from_seed"] += 1
            except Exception as e:
                res.violate(("C05", "encrypt_raised", type(e).__name__), f"BeaconKeys.from_aes_rand / encrypt_packet raised {e!r}")
        try:
            ep = encrypt_packet(pt, aes, hm, **kw)
        except Exception as e:
            res.violate(("C05", "encrypt_raised", type(e).__name__), f"encrypt_packet raised {e!r} for a {len(pt)}-byte plaintext")
            eps.append(None)
            continue
        eps.append(ep)
        want_ct, want_sig = rc.ref_encrypt(padded, aes, hm, riv)
        res.log.log("pkt", pi, len(pt), ep.ciphertext, ep.signature)
        if pad(pt) != padded:
            res.violate(("C05", "padding", f"residue={len(pt) % 16}"), f"pad({len(pt)} bytes) -> {pad(pt)[len(pt):]!r}, expected {k} x 'A'")
        if ep.ciphertext != want_ct:
            res.violate(("C05", "ciphertext_differs", f"residue={len(pt) % 16}", "custom_iv" if iv else "default_iv"),
                        f"ciphertext for a {len(pt)}-byte plaintext differs from AES-128-CBC(key, iv, pt || 'A'*{k}) "
                        f"({len(ep.ciphertext)} vs {len(want_ct)} bytes)")
            continue
        if ep.signature != want_sig:
            res.violate(("C05", "signature_differs"), "signature is not HMAC-SHA256(hmac_key, ciphertext)[:16]")
            continue
        try:
            back = decrypt_packet(ep, aes, hm, verify=True, **kw)
        except Exception as e:
            res.violate(("C05", "decrypt_raised", type(e).__name__), f"decrypt_packet raised {e!r} on an intact packet")
            continue
        if back != padded:
            res.violate(("C05", "roundtrip_differs", f"residue={len(pt) % 16}"),
                        f"decrypt(encrypt(pt)) = {back[-20:]!r}.. expected pt || 'A'*{k}")
        try:
            if decrypt_packet(ep, aes, None, verify=False, **kw) != padded:
                res.violate(("C05", "noverify_differs"), "decrypt_packet(verify=False) returned different bytes")
            res.probes["verify_false_no_hmac"] += 1
        except Exception as e:
            res.violate(("C05", "noverify_raised", type(e).__name__), f"decrypt_packet(verify=False, hmac_key=None) raised {e!r}")
        # ---------------- fault enumeration
        blob = ep.ciphertext + ep.signature
        nct = len(ep.ciphertext)
        faults = 0
        accepted = None

        def attack(ct, sig, key, what):
            nonlocal faults, accepted
            faults += 1
            try:
                # verification is the documented default of decrypt_packet: every other attack relies on the default
                if faults % 2:
                    out = decrypt_packet(EncryptedPacket(ct, sig), aes, key, **kw)
                else:
                    out = decrypt_packet(EncryptedPacket(ct, sig), aes, key, verify=True, **kw)
                if accepted is None:
                    accepted = (what, out)
            except ValueError:
                pass
            except Exception as e:  # noqa: BLE001
                if accepted is None:
                    accepted = (what, e)
        if big:
            # sampled: first/last ciphertext block, the whole signature, and the plan's random positions
            bits = set(range(128)) | set(range((nct - 16) * 8, len(blob) * 8)) | {x % (len(blob) * 8) for x in p["sampled_bits"]}
            cuts = sorted({1, 2, 15, 16, 17, 32, nct // 2, nct - 16, nct - 1, nct} & set(range(1, nct + 1)))
        else:
            bits = range(len(blob) * 8)
            cuts = range(1, nct + 1)
        for bit in sorted(bits) if big else bits:
            b = bytearray(blob)
            b[bit >> 3] ^= 1 << (bit & 7)
            attack(bytes(b[:nct]), bytes(b[nct:]), hm, f"bitflip {bit} ({'ciphertext' if bit >> 3 < nct else 'signature'})")
        for cut in cuts:
            attack(ep.ciphertext[:nct - cut], ep.signature, hm, f"ciphertext truncated by {cut}")
        for cut in range(1, 17):
            attack(ep.ciphertext, ep.signature[:16 - cut], hm, f"signature truncated by {cut}")
        for wk in p["wrong_keys"]:
            attack(ep.ciphertext, ep.signature, unhx(wk), "wrong hmac key")
        attack(ep.ciphertext, ep.signature, None, "hmac key None")
        attack(ep.ciphertext, ep.signature, b"", "hmac key empty")
        if pi == plan["keyflip_packet"]:
            res.probes["keyflip_sweep"] += 1
            for bit in range(128):
                kb = bytearray(hm)
                kb[bit >> 3] ^= 1 << (bit & 7)
                attack(ep.ciphertext, ep.signature, bytes(kb), f"hmac key bit {bit} flipped")
        res.faults["tamper_faults_tried"] += faults
        res.cases += faults
        res.log.log("faults", pi, faults, accepted is None)
        if accepted is not None:
            what, out = accepted
            cls = what.split(" ")[0] + ("_" + what.split("(")[1].rstrip(")") if "(" in what else "")
            if isinstance(out, Exception):
                res.violate(("C05", "tamper_wrong_exception", cls, type(out).__name__),
                            f"{what}: decrypt_packet(verify=True) raised {out!r} instead of ValueError")
            else:
                res.violate(("C05", "tamper_accepted", cls),
                            f"{what}: decrypt_packet(verify=True) returned {len(out)} bytes of plaintext instead of raising ValueError")
    # ---------------- framing
    for si, idxs in enumerate(plan["streams"]):
        lst = [eps[i] for i in idxs if eps[i] is not None]
        if not lst:
            continue
        if len(lst) > 1:
            res.probes["multi_frame_stream"] += 1
        stream = b"".join(e.dumps() for e in lst)
        try:
            got = list(ClientC2Data(output=stream).iter_encrypted_packets())
        except Exception as e:
            res.violate(("C05", "client_framing_raised", type(e).__name__), f"iter_encrypted_packets raised {e!r} on {len(lst)} frames")
            continue
        res.log.log("stream", si, len(lst), len(got))
        if [tuple(g) for g in got] != [tuple(e) for e in lst]:
            res.violate(("C05", "client_framing_differs", f"frames={'1' if len(lst) == 1 else '2+'}"),
                        f"a stream of {len(lst)} framed packets split into {len(got)} packets / different contents")
        # reference framing must agree with dumps()
        want_stream = b"".join(struct.pack(">I", len(e.ciphertext) + 16) + e.ciphertext + e.signature for e in lst)
        if stream != want_stream:
            res.violate(("C05", "dumps_framing_differs"), "EncryptedPacket.dumps() is not u32be(len) || ciphertext || signature")
        e0 = lst[0]
        try:
            got = list(ServerC2Data(output=e0.ciphertext + e0.signature).iter_encrypted_packets())
            if [tuple(g) for g in got] != [tuple(e0)]:
                res.violate(("C05", "server_framing_differs"), "trailing-signature framing did not return the packet")
        except Exception as e:
            res.violate(("C05", "server_framing_raised", type(e).__name__), f"ServerC2Data.iter_encrypted_packets raised {e!r}")
    if list(ClientC2Data(output=b"").iter_encrypted_packets()) or list(ServerC2Data(output=b"").iter_encrypted_packets()):
        res.violate(("C05", "empty_stream_not_empty"), "an empty stream yielded packets")
    return res


def candidates(plan: dict):
    if plan.get("world") != "S-packets":
        yield from sessiongen.candidates(plan)
        return
    n = len(plan["packets"])
    for i in range(n):
        if n > 1:
            new = core._set(plan, ["packets"], [plan["packets"][i]])
            new["streams"] = [[0]]
            new["keyflip_packet"] = 0
            yield new
    yield from core.shrink_list(plan, ["streams"], min_len=0)
    for i in range(len(plan["streams"])):
        yield from core.shrink_list(plan, ["streams", i], min_len=1)
    for i in range(len(plan["packets"])):
        if plan["packets"][i].get("pt") is not None:
            yield from core.shrink_hex(plan, ["packets", i, "pt"])
        else:
            yield from core.shrink_int(plan, ["packets", i, "pt_gen", "len"])
        if plan["packets"][i]["iv"]:
            yield core._set(plan, ["packets", i, "iv"], None)
