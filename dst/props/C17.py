"""C17 — Guardrails-protected configurations are recovered iff the checksum matches (World F).

Protected payloads are produced by an independent masker (anchored to the real Guardrails sample) and stored on
the simulated device; storage faults corrupt key-bearing runs, checksum, marker or configuration bytes.
Fault-free runs must recover everything; under faults only the safety invariant is demanded:
"a configuration is reported => its checksum equals the one stored in the guard configuration".
"""
from __future__ import annotations

import struct

from dst import core
from dst.core import Result, hx, unhx
from dst.storage import builder, images
from dst.storage.simfile import Budget, IoSeam, ReadBudgetExceeded
from dst.props.C01 import DEFAULT_KEYS, find_all, gen_settings

ID = "C17"
RUN_WALL_S = 90    # per-run wall-clock alarm for loops that perform no I/O (see core.guarded)
LEVEL = "exploration"
RUNS = {"quick": 1500, "thorough": 30000}
CHUNK = {"quick": 16, "thorough": 64}
PROBES = ["keylen_2", "keylen_3_15", "keylen_16_100", "keylen_101_255", "keylen_256", "periodic_key", "opts_1", "opts_2",
          "opts_3", "opts_4", "container_xorpe", "area_at_0", "stray_marker_before_area", "fault_in_settings", "fault_in_padding", "fault_in_checksum",
          "fault_in_marker", "fault_in_guard_settings", "fault_checksum_delta", "fault_checksum_zero", "fault_checksum_absent", "rejected_under_fault",
          "recovered_under_fault", "metadata_only", "entry_iter", "marker_at_block_boundary", "history_genuine_then_corrupted", "history_corrupted_then_genuine", "checksum_option_not_last", "checksum_above_1_5M"]
RULE = ("seeded plans: settings list (1-40 records, zero-padded to 6144) masked with an environmental key of length 2..256 "
        "(each length drawn uniformly; aperiodic or periodic), every non-empty subset of the four guard options, protected "
        "area at offset 0..3000 in random filler, raw or inside a XorEncoded PE; 35% of runs inject 1-2 storage faults "
        "(bit flips in settings / padding (key-bearing runs) / checksum / marker / guard settings, or a wrong stored "
        "checksum); 55% of those are two-step histories in one process (genuine image then its corrupted copy, or the reverse). non-trivial = every run (each performs a key search and checksum validation); distinct = digest")
ASSUMPTIONS = [
    "configurations are zero-padded to the 6144-byte patch area (the n-gram key search needs the zero runs)",
    "environmental keys are compared modulo tiling; all-zero keys are not generated (nothing is masked)",
    "at least one guard option is present (the marker search only knows the four option headers)",
    "runs in which the masked area happens to contain a plain config header under a default key are discarded",
    "io.DEFAULT_BUFFER_SIZE is not varied (the property does not quantify over it; the key statistic depends on it)",
    "under faults only the safety invariant is judged, never that recovery must fail or succeed",
]
REAL = ["beacon.BeaconConfig.from_bytes/from_file (Guardrails fallback)", "guardrails.iter_guardrail_configs",
        "guardrails.iter_guardrail_configs_with_beacon", "guardrails.find_xor_key_candidates", "guardrails.payload_checksum",
        "xordecode.XorEncodedFile", "utils.xor"]
STUB = ["storage device (SimFile)", "independent Guardrails masker + checksum", "storage fault injector"]

OPTS = {5: "short", 6: "short", 7: "short", 8: "int"}


def generate(rng, tier, index):
    L = rng.randint(2, 256)
    if rng.random() < 0.08:
        L = rng.choice([2, 3, 255, 256])
    if rng.random() < 0.12:
        unit = bytes(rng.getrandbits(8) | 1 for _ in range(rng.choice([1, 2, 3, 5])))
        key = (unit * (L // len(unit) + 1))[:max(2, L // len(unit) * len(unit))]
    else:
        key = bytes(rng.getrandbits(8) for _ in range(L))
    if not any(key):
        key = b"\x01" + key[1:]
    subset = [o for o in (5, 6, 7, 8) if rng.random() < 0.5] or [rng.choice([5, 6, 7, 8])]
    guard = [[o, OPTS[o], rng.getrandbits(32 if o == 8 else 16)] for o in subset]
    settings = gen_settings(rng, maxn=30)
    if rng.random() < 0.3:
        # large configurations: the zero padding then lies mostly beyond offset 4096 of the patch area
        size = len(builder.encode_settings(settings, pad_to=None))
        idx = 400
        hi = rng.random() < 0.35      # high byte values throughout: the weighted checksum comes close to its maximum
        target = rng.choice([3500, 3800, 3900]) if hi else rng.choice([2200, 3000, 3800])
        while size < target:
            ln = rng.randint(200, 700)
            settings.append([idx, "ptr", hx(bytes((rng.randint(0xF8, 0xFF) if hi else rng.getrandbits(8) | 1) for _ in range(ln)))])
            size += 6 + ln
            idx += 1
    container = rng.choice(["raw", "raw", "xorpe"])
    at = rng.choice([0, 0, 1, 7, 100, rng.randint(0, 3000)])
    boundary = rng.random() < 0.3
    if boundary:
        # the 12-byte marker window (6 bytes before / 6 bytes after the end of the masked configuration) lies across or next
        # to a multiple of 4096 / 8192: block-wise scanners have to carry it over
        at = max(0, rng.choice([8192, 8192, 12288, 16384, 65536, 65536, 131072]) - 6138 + rng.randint(-14, 8))
    pe_spec = xor_spec = None
    if container == "xorpe":
        pe_spec = {"arch": rng.choice(["x86", "x64"]), "e_lfanew": rng.choice([64, 128, 240]), "compile": rng.getrandbits(32),
                   "export": rng.choice([None, rng.getrandbits(32)]), "text": 16, "seed": rng.getrandbits(16),
                   "prepend": rng.choice([0, 0, 3]), "append": ""}
        xor_spec = {"nonce": hx(bytes(rng.getrandbits(8) for _ in range(4))), "stub": hx(b"\x90" * rng.randint(0, 40) + b"\xff\xff\xff")}
        if boundary:
            # inside a PE the protected area starts at the data section: the boundary is meant in the decoded stream (what the
            # scanner reads through the XorEncoded view), for some plans in the stored file
            from dst.storage.images import pe_data_offset
            shift = pe_data_offset(pe_spec) + (len(unhx(xor_spec["stub"])) + 8 if rng.random() < 0.3 else 0)
            if at - shift >= 0:
                at -= shift
    plan = {"container": container, "size": at + rng.choice([0, 0, 50, 700]), "filler": {"kind": "random", "seed": rng.getrandbits(24)},
            "guards": [{"at": at, "settings": settings, "env_key": hx(key), "guard": guard, "checksum_delta": 0,
                        # the checksum option is usually last; it may sit anywhere after the first guard option
                        "checksum_pos": None if rng.random() < 0.6 else rng.randint(1, len(guard))}],
            "faults": [], "entry": rng.choice(["from_bytes", "from_bytes", "from_file", "iter"])}
    if at >= 6200 or (rng.random() < 0.25 and not boundary):
        # a stray guard marker (12 bytes satisfying the marker relation) with >= 6144 bytes in front of it, before the real
        # area: the scanner reports it as a guard configuration without beacon config, then finds the real one
        if at < 6200:
            at = rng.randint(6200, 9000)
            plan["guards"][0]["at"] = at
            plan["size"] = at + rng.choice([0, 50])
        opt = rng.choice([5, 6, 7, 8])
        plan["stray"] = {"at": rng.randint(6138, at - 13), "a": hx(bytes(rng.getrandbits(8) for _ in range(6))), "opt": opt}
    if container == "xorpe":
        plan["pe"] = pe_spec
        plan["xor"] = xor_spec
    if rng.random() < 0.35:
        enc_len = len(builder.encode_settings(settings, pad_to=None))
        for _ in range(rng.choice([1, 1, 2])):
            w = rng.choice(["settings", "padding", "padding", "checksum", "marker", "guard_settings", "delta", "zero", "absent"])
            if w in ("zero", "absent"):
                plan["guards"][0]["checksum_mode"] = w
                continue
            if w == "delta":
                plan["guards"][0]["checksum_delta"] = rng.choice([1, -1, 2, 0x100, 0x80000000, 0x80000000, rng.getrandbits(24) or 5])
                continue
            rel = {"settings": rng.randint(0, enc_len - 1), "padding": rng.randint(enc_len, 6143),
                   "checksum": 6144 + 8 * len(guard) - (2 if 8 not in subset else 0) + 6 + rng.randint(0, 3),
                   "marker": rng.choice([6138 + rng.randint(0, 5), 6144 + rng.randint(0, 5)]),
                   "guard_settings": 6144 + rng.randint(6, 8 * len(guard))}[w]
            plan["faults"].append({"where": w, "rel": rel, "mask": 1 << rng.randint(0, 7)})
        r = rng.random()
        if r < 0.35:
            plan["prior"] = "genuine_first"
        elif r < 0.55:
            plan["prior"] = "corrupted_first"
    elif rng.random() < 0.15 and len(key) <= 85:
        # a three-step history in one process: two payloads whose environmental key is m times as long, then this one
        m = rng.choice([2, 2, 3])
        plan["prior"] = "related_keys"
        plan["prior_key"] = hx(bytes(rng.getrandbits(8) | 1 for _ in range(len(key) * m)))
    return plan


def _checksum_rel(guard, pos=None):
    """offset of the checksum value inside the guard config."""
    off = 0
    n = len(guard) if pos is None else max(1, min(pos, len(guard)))
    for o, t, _ in guard[:n]:
        off += 6 + (2 if t == "short" else 4)
    return off + 6


def build(plan):
    """-> (raw image, view (decoded or raw), offset of the protected area in the view)"""
    plain, lay = images.build_plain(plan)
    p = bytearray(plain)
    base = lay["guard0.cfg"]
    if plan.get("stray"):
        st = plan["stray"]
        a = unhx(st["a"])
        start = {5: b"\x00\x05\x00\x01\x00\x02", 6: b"\x00\x06\x00\x01\x00\x02", 7: b"\x00\x07\x00\x01\x00\x02",
                 8: b"\x00\x08\x00\x02\x00\x04"}[st["opt"]]
        b = bytes(x ^ y ^ 0x8A for x, y in zip(a[::-1], start))
        off = (base - plan["guards"][0]["at"]) + st["at"]
        p[off:off + 12] = a + b
    for f in plan["faults"]:
        rel = f["rel"]
        if f["where"] == "checksum":
            rel = 6144 + _checksum_rel(plan["guards"][0]["guard"], plan["guards"][0].get("checksum_pos")) + (f["rel"] % 4)
        if 0 <= base + rel < len(p):
            p[base + rel] ^= f["mask"]
    plain = bytes(p)
    if plan["container"] == "xorpe":
        raw, _ = builder.xorencode(plain, unhx(plan["xor"]["nonce"]), unhx(plan["xor"]["stub"]))
        return raw, plain, base
    return plain, plain, base


def ref_unmask_guard(view: bytes, cfg_off: int):
    masked_cfg = view[cfg_off:cfg_off + 6144]
    masked_guard = view[cfg_off + 6144:cfg_off + 6144 + 2048]
    rev = masked_cfg[::-1]
    guard = bytes(g ^ 0x8A ^ rev[i] for i, g in enumerate(masked_guard))
    recs = []
    p = 0
    stored = 0
    while p + 6 <= len(guard) and guard[p:p + 2] != b"\x00\x00":
        o, t, ln = struct.unpack_from(">HHH", guard, p)
        if p + 6 + ln > len(guard):
            break
        v = guard[p + 6:p + 6 + ln]
        recs.append((o, t, ln, v))
        if o == 9:
            stored = int.from_bytes(v[:4], "big")
        p += 6 + ln
    return masked_cfg, masked_guard, guard, recs, stored


def _strip_faults(plan):
    import copy
    p = copy.deepcopy(plan)
    p["faults"] = []
    p["guards"][0]["checksum_delta"] = 0
    p["guards"][0].pop("checksum_mode", None)
    p.pop("prior", None)
    return p


def execute(plan: dict) -> Result:
    """A run is one extraction, or - for faulty images with a "prior" - a two-step history in one process: the genuine
    image and its corrupted copy (same masked configuration) are extracted one after the other, in either order; the
    verdict on each must be what it would be alone (nothing remembered from the first may decide the second)."""
    res = Result()
    res.nontrivial = True
    prior = plan.get("prior")
    if prior == "genuine_first":
        res.probes["history_genuine_then_corrupted"] += 1
        _stage(_strip_faults(plan), res, "1st:")
        if res.discarded or res.violations:
            return res
        _stage(plan, res, "2nd:")
    elif prior == "corrupted_first":
        res.probes["history_corrupted_then_genuine"] += 1
        _stage(plan, res, "1st:")
        if res.discarded or res.violations:
            return res
        _stage(_strip_faults(plan), res, "2nd:")
    elif prior == "related_keys":
        import copy
        res.probes["history_keys_of_related_lengths"] += 1
        q = copy.deepcopy(plan)
        q.pop("prior")
        q["guards"][0]["env_key"] = plan["prior_key"]
        for nth in ("1st:", "2nd:"):
            _stage(q, res, nth)
            if res.discarded or res.violations:
                return res
        q = copy.deepcopy(plan)
        q.pop("prior")
        _stage(q, res, "3rd:")
    else:
        _stage(plan, res, "")
    return res


def _stage(plan: dict, res: Result, stage: str) -> Result:
    from dissect.cobaltstrike.beacon import BeaconConfig
    from dissect.cobaltstrike.guardrails import iter_guardrail_configs_with_beacon
    raw, view, area = build(plan)
    g = plan["guards"][0]
    key = unhx(g["env_key"])
    faulty = bool(plan["faults"]) or bool(g["checksum_delta"]) or bool(g.get("checksum_mode"))
    # out of domain: a plain header under a default key somewhere in the image
    for v in {raw, view}:
        for k in DEFAULT_KEYS:
            if find_all(v, builder.xor1(builder.CONFIG_HEADER, k)):
                res.discarded = "plain_header_present"
                return res
    L = len(key)
    res.probes["keylen_2" if L == 2 else "keylen_3_15" if L < 16 else "keylen_16_100" if L <= 100 else
               "keylen_256" if L == 256 else "keylen_101_255"] += 1
    for per in range(1, L // 2 + 1):
        if L % per == 0 and key == key[:per] * (L // per):
            res.probes["periodic_key"] += 1
            break
    res.probes[f"opts_{len(g['guard'])}"] += 1
    if plan["container"] == "xorpe":
        res.probes["container_xorpe"] += 1
    if g["at"] == 0:
        res.probes["area_at_0"] += 1
    if any(0 <= (area + 6138 + 11) % m < 11 + 6 for m in (4096,)):
        res.probes["marker_at_block_boundary"] += 1
    if plan.get("stray"):
        res.probes["stray_marker_before_area"] += 1
    for f in plan["faults"]:
        res.probes["fault_in_" + f["where"]] += 1
        res.faults["flip_" + f["where"]] += 1
    if g.get("checksum_mode"):
        res.probes["fault_checksum_" + g["checksum_mode"]] += 1
        res.faults["stored_checksum_" + g["checksum_mode"]] += 1
    if g["checksum_delta"]:
        res.probes["fault_checksum_delta"] += 1
        res.faults["wrong_stored_checksum"] += 1

    _violate = res.violate

    def violate(sig, msg, plan=None):
        # a verdict that is only wrong as the second step of a history gets its own signature
        _violate(tuple(sig) + (("after_" + ("genuine" if faulty else "corrupted"),) if stage == "2nd:" else ()), stage + msg, plan)

    budget = Budget(60_000_000)
    got = None
    with IoSeam(budget=budget) as seam:
        try:
            if plan["entry"] == "from_bytes":
                got = ("bc", BeaconConfig.from_bytes(raw))
            elif plan["entry"] == "from_file":
                fh = seam.file(raw)
                fh.seek(len(raw) // 2)
                got = ("bc", BeaconConfig.from_file(fh))
            else:
                res.probes["entry_iter"] += 1
                got = ("iter", list(iter_guardrail_configs_with_beacon(seam.file(view))))
        except ValueError as e:
            got = ("ValueError", str(e))
        except ReadBudgetExceeded:
            violate(("C17", "no_termination", plan["entry"]), "extraction did not terminate")
            return res
        except Exception as e:
            violate(("C17", "exception", type(e).__name__, plan["entry"]), f"{plan['entry']} raised {e!r}")
            return res

    def judge_reported(gr, cfg_block, tag):
        """Safety invariant for one reported configuration."""
        masked_cfg, masked_guard, guard_plain, recs, stored = ref_unmask_guard(view, gr.beacon_config_offset)
        unmasked = gr.unmasked_beacon_config
        k = gr.payload_xor_key or b""
        if builder.ref_payload_checksum(unmasked) + 1 != stored:
            violate(("C17", "reported_with_checksum_mismatch", tag),
                        f"configuration reported although checksum(unmasked)+1 = {builder.ref_payload_checksum(unmasked) + 1:#x} "
                        f"!= stored {stored:#x} (reported checksum {gr.checksum:#x}, key {k.hex()[:40]})")
            return False
        if unmasked != builder.xor1(builder.xor_tile(masked_cfg, k), 0x2E):
            violate(("C17", "unmasked_not_consistent_with_key", tag),
                        "reported unmasked configuration is not masked ^ 0x2e ^ tile(reported key)")
            return False
        if cfg_block is not None and cfg_block != unmasked:
            violate(("C17", "config_block_differs_from_unmasked", tag), "config_block != guardrails.unmasked_beacon_config")
            return False
        return True

    want_cfg = builder.encode_settings(g["settings"], pad_to=6144)
    if builder.ref_payload_checksum(want_cfg) > 1_500_000:
        res.probes["checksum_above_1_5M"] += 1
    want_settings = builder.ref_decode_settings(want_cfg)
    want_guard = [(o, builder.TYPE_CODE[t], 2 if t == "short" else 4,
                   struct.pack(">H" if t == "short" else ">I", v)) for o, t, v in g["guard"]]

    if got[0] == "bc":
        bc = got[1]
        gr = bc.guardrails
        res.log.log("bc", bool(gr), bc.config_block[:32], gr.payload_xor_key if gr else None)
        if gr is None:
            violate(("C17", "plain_config_reported", plan["entry"]),
                        f"a configuration was reported without Guardrails metadata (xorkey={bc.xorkey!r})")
            return res
        ok = judge_reported(gr, bc.config_block, plan["entry"])
        if faulty:
            res.probes["recovered_under_fault"] += 1
            return res
        if not ok:
            return res
        if bc.config_block != want_cfg:
            violate(("C17", "wrong_config", plan["entry"]), "recovered configuration differs from the original")
            return res
        got_settings = [(s.index.value, s.type.value, s.length, bytes(s.value)) for s in bc.settings_tuple]
        if got_settings != want_settings:
            violate(("C17", "wrong_settings", plan["entry"]), "decoded settings differ from the original list")
        if builder.xor_tile(bytes(6144), gr.payload_xor_key or b"") != builder.xor_tile(bytes(6144), key):
            violate(("C17", "wrong_key", plan["entry"]),
                        f"payload_xor_key {gr.payload_xor_key.hex()[:60]} is not the environmental key {key.hex()[:60]} (mod tiling)")
        else:
            # the environmental key itself, not a multiple of it: a key and its repetitions mask identically, so what can be
            # recovered is the shortest key (of at least two bytes) that tiles like the original - for an aperiodic key, the key
            tile = builder.xor_tile(bytes(6144), key)
            shortest = next(key[:p_] for p_ in range(2, len(key) + 1) if builder.xor_tile(bytes(6144), key[:p_]) == tile)
            if bytes(gr.payload_xor_key) != shortest:
                violate(("C17", "wrong_key", "repetition_of_the_key", plan["entry"]),
                        f"payload_xor_key has {len(gr.payload_xor_key)} bytes ({gr.payload_xor_key.hex()[:60]}), the environmental key "
                        f"{shortest.hex()[:60]} has {len(shortest)}" + (f" (the shortest tile of the {len(key)}-byte key used)" if shortest != key else ""))
        got_guard = [(s.option.value, s.type.value, s.length, bytes(s.value)) for s in gr.settings]
        cp = g.get("checksum_pos")
        ci = len(want_guard) if cp is None else max(1, min(cp, len(want_guard)))
        if cp is not None and ci < len(want_guard):
            res.probes["checksum_option_not_last"] += 1
        if got_guard[:ci] + got_guard[ci + 1:] != want_guard or len(got_guard) != len(want_guard) + 1 or got_guard[ci][0] != 9:
            violate(("C17", "wrong_guard_settings", plan["entry"]), f"guard settings {got_guard} != {want_guard} + checksum")
        if gr.checksum != builder.ref_payload_checksum(want_cfg) + 1:
            violate(("C17", "wrong_checksum", plan["entry"]), f"checksum {gr.checksum:#x} reported")
        if (gr.beacon_config_offset, gr.guard_config_offset) != (area, area + 6144):
            violate(("C17", "wrong_offsets", plan["entry"]),
                        f"offsets ({gr.beacon_config_offset}, {gr.guard_config_offset}) != ({area}, {area + 6144})")
        if bc.xorkey != b"\x2e":
            violate(("C17", "wrong_xorkey", plan["entry"]), f"xorkey {bc.xorkey!r}")
    elif got[0] == "iter":
        lst = got[1]
        res.log.log("iter", len(lst), [bool(x.unmasked_beacon_config) for x in lst])
        for gr in lst:
            if gr.unmasked_beacon_config:
                judge_reported(gr, None, "iter")
            else:
                res.probes["metadata_only"] += 1
                if gr.payload_xor_key is not None:
                    violate(("C17", "key_without_config", "iter"), "payload_xor_key set but no unmasked configuration")
        if not faulty:
            hit = [x for x in lst if x.beacon_config_offset == area]
            if not hit:
                violate(("C17", "not_found", "iter"), f"protected area at {area} not reported at all")
            elif not hit[0].unmasked_beacon_config:
                violate(("C17", "not_recovered", "iter"),
                            f"guard metadata found but configuration not recovered (key length {L})")
            elif hit[0].unmasked_beacon_config != want_cfg:
                violate(("C17", "wrong_config", "iter"), "recovered configuration differs from the original")
    else:
        res.log.log("ValueError")
        if faulty:
            res.probes["rejected_under_fault"] += 1
        else:
            violate(("C17", "not_recovered", plan["entry"], "keylen<=16" if L <= 16 else "keylen>16"),
                        f"fault-free Guardrails payload (key length {L}, {len(g['guard'])} guard options, area at {area}, "
                        f"{plan['container']}) was not recovered: ValueError({got[1]!r})")
    return res


def candidates(plan: dict):
    if plan.get("prior"):
        q = dict(plan)
        q.pop("prior")
        yield q
    yield from core.shrink_list(plan, ["faults"])
    yield from core.shrink_list(plan, ["guards", 0, "settings"], min_len=1)
    yield from core.shrink_list(plan, ["guards", 0, "guard"], min_len=1)
    if plan["container"] == "xorpe":
        yield core._set(plan, ["container"], "raw")
    yield from core.shrink_int(plan, ["guards", 0, "at"])
    yield from core.shrink_int(plan, ["size"])
    yield from core.shrink_hex(plan, ["guards", 0, "env_key"], min_len=2)
    if plan["entry"] != "from_bytes":
        yield core._set(plan, ["entry"], "from_bytes")
    if plan["guards"][0]["checksum_delta"]:
        yield core._set(plan, ["guards", 0, "checksum_delta"], 1)
    # larger configurations (more than 2 KiB of settings) matter for chunked key statistics: do not shrink below
