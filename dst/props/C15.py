"""C15 — pattern scanners report exactly the true occurrences (World F).

The scanners stream from a reader in chunks of `io.DEFAULT_BUFFER_SIZE`; the simulator owns the reader
(SimFile), the chunk-size knob (io seam) and the initial cursor position. Oracle: a naive scanner over the
stored image.
"""
from __future__ import annotations

import itertools
import struct

from dst import core
from dst.core import Result, hx, unhx
from dst.storage.simfile import Budget, IoSeam, ReadBudgetExceeded

ID = "C15"
MEM_LIMIT_GB = 3     # address-space limit of the processes executing runs (see run.py _Guarded)
RUN_WALL_S = 90    # per-run wall-clock alarm for loops that perform no I/O (see core.guarded)
LEVEL = "exploration"
RUNS = {"quick": 1000000, "thorough": 6000000}
CHUNK = {"quick": 500, "thorough": 2000}
PROBES = ["straddles_chunk", "overlapping", "at_offset_0", "at_eof", "limit_inside_occurrence", "leading_zero_needle",
          "needle_len_1", "artifact_hit", "artifact_overlap", "artifact_eof_cut", "artifact_maxrange", "start_none",
          "needle_longer_than_chunk", "haystack_of_several_default_buffers", "defaults_left_out_of_the_call", "artifact_image_of_several_64k"]
RULE = ("seeded plans: haystack over a 1-3 symbol or random alphabet (len<=80; 2% of the plans use haystacks of 8-40 KiB with "
        "needles planted around the multiples of 8192 and of B, B from 2 to 20000), needle len 1-9 (incl. leading zero "
        "bytes, planted copies), chunk knob B in 1..12 or around len, start_offset in {None after seek, 0, k}, "
        "max_offset 0 or around occurrences; ArtifactKit images with 0-4 planted self-referential headers; plus a "
        "systematic grid (binary haystacks <=10, needles <=3, B<=5, all start offsets). non-trivial = an occurrence "
        "straddles a chunk boundary, overlaps another, lies at offset 0 or ends at EOF, the limit cuts an occurrence, "
        "or an ArtifactKit header is present; distinct = distinct event-log digest")
ASSUMPTIONS = [
    "reader is a full-read seekable file (SimFile == BytesIO semantics); no short reads or I/O errors injected",
    "needles have length >= 1; start_offset/max_offset are non-negative",
    "with start_offset the expected occurrences are those starting at or after it",
]
REAL = ["utils.iter_find_needle", "artifact.iter_artifactkit_payloads", "utils.xor", "utils.u32"]
STUB = ["storage device (SimFile)", "io.DEFAULT_BUFFER_SIZE knob (io seam)", "naive reference scanner"]
EXHAUSTIVE = {"quick": False, "thorough": False}
EXHAUSTIVE_SCOPE = ("the systematic population enumerates every binary haystack of length <= Lh, every binary needle "
                    "of length <= 3, B <= 5 and every start offset (Lh = 8 quick / 10 thorough); the seeded "
                    "population is sampled")

_GRID = {"quick": 8, "thorough": 10}


# ------------------------------------------------------------------------------------------- generation

def generate(rng, tier, index):
    r = rng.random()
    if r < 0.0015:
        return _gen_big_artifact(rng)
    if r < 0.25:
        return _gen_artifact(rng)
    if r < 0.27:
        return _gen_big_needle(rng)
    return _gen_needle(rng)


def _gen_big_needle(rng):
    """Haystacks of several default-size buffers (described by seed/length, not spelled out) with planted needles around
    the multiples of 8192 and of B: the chunk size the scanner uses has to be the one in force at call time."""
    n = rng.choice([8193, 8200, 16384, 16390, 20000, 24577, rng.randint(8193, 40000)])
    B = rng.choice([7, 100, 1000, 4096, 8191, 8193, 12000, 16384, 8192, rng.randint(2, 20000)])
    nl = rng.choice([1, 2, 3, 4, 7, 9])
    needle = bytes(rng.getrandbits(8) | 0x80 for _ in range(nl))
    plants = []
    for _ in range(rng.randint(1, 6)):
        m = rng.choice([8192, 8192, B, B, 16384])
        base = m * rng.randint(1, max(1, n // m))
        plants.append(max(0, min(n - nl, base + rng.randint(-nl - 1, 2))))
    plants += [rng.randint(0, n - nl) for _ in range(rng.randint(0, 3))]
    scans = []
    for _ in range(rng.randint(1, 3)):
        st = rng.choice(["none", "zero", "zero", "k"])
        start = None if st == "none" else 0 if st == "zero" else rng.randint(0, n)
        seek = rng.choice([0, 0, rng.randint(0, n)])
        mx = 0 if rng.random() < 0.6 else rng.randint(1, n + 3)
        scans.append({"start": start, "seek": seek, "max": mx})
    return {"kind": "needle", "hay": None, "hay_gen": {"seed": rng.getrandbits(24), "len": n, "plants": sorted(set(plants))},
            "needle": hx(needle), "B": B, "scans": scans}


def _gen_big_artifact(rng):
    """Images of several 64 KiB: headers planted around the multiples of 4096 / 8192 / 65536 (a scanner that works
    block-wise has to carry the 4-byte windows across its block boundaries)."""
    n = rng.choice([65536 + 40, 70000, 131072 + 64, rng.randint(65540, 140000)])
    plants = []
    for _ in range(rng.randint(1, 5)):
        m = rng.choice([65536, 65536, 8192, 4096, 32768])
        base = m * rng.randint(1, max(1, (n - 24) // m))
        p_ = max(0, min(n - 24, base + rng.randint(-5, 2)))
        plants.append([p_, rng.choice([0, 1, 5, 17, 40]), hx(bytes(rng.getrandbits(8) for _ in range(4)))])
    plants.append([rng.randint(0, n - 24), 3, "00000000"])
    return {"kind": "artifact", "image": None, "image_gen": {"seed": rng.getrandbits(24), "len": n, "plants": plants},
            "start": rng.choice([0, 0, None]), "seek": 0, "maxrange": None, "B": 8192, "omit_defaults": rng.random() < 0.5}


def _image_of(plan) -> bytes:
    if plan.get("image") is not None:
        return unhx(plan["image"])
    from dst.storage.builder import prng_bytes
    g = plan["image_gen"]
    # filler dwords can never satisfy the self-referential check: every byte has its top bit set (values >= 0x80808080)
    img = bytearray(b | 0x80 for b in prng_bytes(g["seed"], g["len"]))
    for p_, size, key in g["plants"]:
        hdr = struct.pack("<II", p_ + 16, size) + unhx(key) + bytes(8)
        img[p_:p_ + len(hdr)] = hdr
    return bytes(img[:g["len"]])


def _hay_of(plan) -> bytes:
    if plan.get("hay") is not None:
        return unhx(plan["hay"])
    from dst.storage.builder import prng_bytes
    g = plan["hay_gen"]
    needle = unhx(plan["needle"])
    # filler bytes are < 0x80, needles are >= 0x80: occurrences are exactly the planted ones (and their overlaps)
    hay = bytearray(b & 0x7F for b in prng_bytes(g["seed"], g["len"]))
    for p_ in g["plants"]:
        hay[p_:p_ + len(needle)] = needle
    return bytes(hay[:g["len"]])


def _hh(hay: bytes) -> str:
    return hay.hex() if len(hay) <= 200 else f"<{len(hay)} bytes sha256:{__import__('hashlib').sha256(hay).hexdigest()[:12]}>"


def _gen_needle(rng):
    mode = rng.choice(["a1", "a2", "a2", "a3", "rnd", "zeros"])
    n = rng.choice([0, 1, 2, 3, 5, 8, 13, 21, 34, 55, 80, rng.randint(0, 80)])
    if mode == "rnd":
        hay = bytes(rng.getrandbits(8) for _ in range(n))
    elif mode == "zeros":
        hay = bytes(rng.choice([0, 0, 0, 1]) for _ in range(n))
    else:
        alpha = {"a1": [0], "a2": [0, 1], "a3": [0, 1, 255]}[mode]
        if rng.random() < 0.3:
            alpha = [rng.getrandbits(8) for _ in alpha]
        hay = bytes(rng.choice(alpha) for _ in range(n))
    nl = rng.choice([1, 1, 2, 2, 3, 3, 4, 5, 7, 9])
    r = rng.random()
    if r < 0.45 and len(hay) >= nl:
        p = rng.randint(0, len(hay) - nl)
        needle = hay[p:p + nl]
    elif r < 0.6:
        needle = bytes([0] * rng.randint(1, nl - 1 or 1)) + bytes(rng.getrandbits(8) for _ in range(1))
        needle = needle[:nl] if len(needle) > nl else needle
    elif r < 0.8 and hay:
        needle = bytes(rng.choice(hay) for _ in range(nl))
    else:
        needle = bytes(rng.getrandbits(8) for _ in range(nl))
    # plant a few copies, some adjacent/overlapping
    hay = bytearray(hay)
    for _ in range(rng.choice([0, 0, 1, 2, 3])):
        if len(hay) >= len(needle):
            p = rng.choice([0, len(hay) - len(needle), rng.randint(0, len(hay) - len(needle))])
            hay[p:p + len(needle)] = needle
    hay = bytes(hay)
    B = rng.choice([1, 1, 2, 2, 3, 4, 5, 6, 7, 8, 9, 10, 11, 12, max(1, len(hay) - 1), max(1, len(hay)),
                    len(hay) + 1, 8192])
    scans = []
    for _ in range(rng.randint(1, 4)):
        st = rng.choice(["none", "zero", "k"])
        start = None if st == "none" else 0 if st == "zero" else rng.randint(0, len(hay) + 2)
        seek = rng.randint(0, len(hay) + 1) if start is None else rng.randint(0, len(hay) + 1)
        mx = 0 if rng.random() < 0.5 else rng.randint(1, len(hay) + 3)
        scans.append({"start": start, "seek": seek, "max": mx, "omit_defaults": rng.random() < 0.5})
    return {"kind": "needle", "hay": hx(hay), "needle": hx(needle), "B": B, "scans": scans}


def _gen_artifact(rng):
    n = rng.choice([0, 3, 4, 16, 20, 40, 64, 100, rng.randint(0, 160)])
    fill = rng.choice(["zero", "rnd", "small"])
    if fill == "zero":
        img = bytearray(n)
    elif fill == "rnd":
        img = bytearray(rng.getrandbits(8) for _ in range(n))
    else:
        img = bytearray(rng.choice([0, 16, 17, 18, 20]) for _ in range(n))
    # (several payloads of one build share their key: the same key is applied to payloads of different lengths)
    shared_key = bytes(rng.getrandbits(8) for _ in range(4))
    for _ in range(rng.choice([0, 1, 1, 2, 3, 4])):
        if n < 4:
            break
        p = rng.choice([0, n - 4, rng.randint(0, n - 4), rng.randint(0, n - 4)])
        size = rng.choice([0, 1, 3, 4, 5, 8, 17, 1000, 0xFFFFFFFF, 0x80000000, rng.randint(0, 64)])
        key = rng.choice([b"\x00\x00\x00\x00", bytes(rng.getrandbits(8) for _ in range(4)), shared_key, shared_key])
        hdr = struct.pack("<II", p + 16, size) + key + bytes(rng.getrandbits(8) for _ in range(8))
        img[p:p + len(hdr)] = hdr[: max(0, n - p)] if rng.random() < 0.3 else hdr
    img = bytes(img)
    st = rng.choice(["none", "zero", "zero", "k"])
    start = None if st == "none" else 0 if st == "zero" else rng.randint(0, len(img) + 2)
    seek = rng.randint(0, len(img) + 1)
    maxrange = None if rng.random() < 0.6 else rng.randint(0, len(img) + 2)
    return {"kind": "artifact", "image": hx(img), "start": start, "seek": seek, "maxrange": maxrange,
            "B": rng.choice([1, 3, 16, 8192]), "omit_defaults": rng.random() < 0.5}


# systematic grid: descriptors; each descriptor enumerates all binary haystacks of one length

def _grid_list(tier):
    L = _GRID[tier]
    out = []
    for hl in range(0, L + 1):
        for nl in (1, 2, 3):
            for B in (1, 2, 3, 4, 5):
                out.append({"kind": "grid", "hay_len": hl, "needle_len": nl, "B": B})
    return out


def systematic_count(tier):
    return len(_grid_list(tier))


def systematic_plan(tier, index):
    return dict(_grid_list(tier)[index])


# ------------------------------------------------------------------------------------------- oracle / execution

def naive_find(hay: bytes, needle: bytes, start: int):
    out = []
    i = hay.find(needle, max(0, start))
    while i != -1:
        out.append(i)
        i = hay.find(needle, i + 1)
    return out


def _scan_needle(res: Result, seam: IoSeam, hay: bytes, needle: bytes, B: int, scan: dict, plan_for_violation):
    from dissect.cobaltstrike.utils import iter_find_needle
    fh = seam.file(hay)
    fh.seek(scan["seek"])
    start = scan["start"]
    eff_start = scan["seek"] if start is None else start
    mx = scan["max"]
    try:
        kw = {"start_offset": start, "max_offset": mx}
        if scan.get("omit_defaults"):
            # documented defaults: search from the current position, no limit
            if start is None:
                del kw["start_offset"]
            if mx == 0:
                del kw["max_offset"]
            res.probes["defaults_left_out_of_the_call"] += 1
        got = list(iter_find_needle(fh, needle, **kw))
    except ReadBudgetExceeded:
        res.violate(("C15", "needle", "no_termination"), f"iter_find_needle did not terminate: {plan_for_violation()}",
                    plan_for_violation())
        return
    except Exception as e:  # the scanner documents no exception
        res.violate(("C15", "needle", "exception", type(e).__name__),
                    f"iter_find_needle raised {e!r}: {plan_for_violation()}", plan_for_violation())
        return
    true = naive_find(hay, needle, eff_start)
    res.log.log("scan", len(hay), needle, B, start, scan["seek"], mx, tuple(got))
    n = len(needle)
    # probes / non-triviality
    if any((o // B) != ((o + n - 1) // B) for o in true):
        res.probes["straddles_chunk"] += 1
        res.nontrivial = True
    if any(b - a < n for a, b in zip(true, true[1:])):
        res.probes["overlapping"] += 1
        res.nontrivial = True
    if true and true[0] == 0:
        res.probes["at_offset_0"] += 1
        res.nontrivial = True
    if true and true[-1] + n == len(hay):
        res.probes["at_eof"] += 1
        res.nontrivial = True
    if needle[0] == 0 and n > 1:
        res.probes["leading_zero_needle"] += 1
    if n == 1:
        res.probes["needle_len_1"] += 1
    if n > B:
        res.probes["needle_longer_than_chunk"] += 1
    if start is None:
        res.probes["start_none"] += 1
    if mx == 0:
        if got != true:
            kind = ("negative" if any(o < 0 for o in got) else
                    "duplicate" if len(set(got)) != len(got) else
                    "not_ascending" if got != sorted(got) else
                    "before_start" if any(o < eff_start for o in got) else
                    "false_offset" if set(got) - set(true) else "missed")
            res.violate(("C15", "needle", "unlimited", kind, "nlen1" if n == 1 else "nlen>1"),
                        f"iter_find_needle(hay={_hh(hay)}, needle={needle.hex()}, B={B}, start={start}, "
                        f"seek={scan['seek']}) -> {got}, naive scanner -> {true}", plan_for_violation())
    else:
        if any(o < t < o + n for o in true for t in (mx,)):
            res.probes["limit_inside_occurrence"] += 1
            res.nontrivial = True
        bogus = [o for o in got if o not in set(naive_find(hay, needle, 0)) or o < eff_start]
        must = [o for o in true if o + n <= mx]
        missed = [o for o in must if o not in got]
        if bogus:
            res.violate(("C15", "needle", "limited", "false_offset", "nlen1" if n == 1 else "nlen>1"),
                        f"iter_find_needle(hay={_hh(hay)}, needle={needle.hex()}, B={B}, start={start}, "
                        f"seek={scan['seek']}, max_offset={mx}) -> {got}; {bogus} are not occurrences at/after start",
                        plan_for_violation())
        elif missed:
            res.violate(("C15", "needle", "limited", "missed", "nlen1" if n == 1 else "nlen>1"),
                        f"iter_find_needle(hay={_hh(hay)}, needle={needle.hex()}, B={B}, start={start}, "
                        f"seek={scan['seek']}, max_offset={mx}) -> {got}; occurrences entirely before the limit "
                        f"not reported: {missed}", plan_for_violation())


def _ref_xor(data: bytes, key: bytes) -> bytes:
    if not key or not any(key):
        return data
    return bytes(d ^ key[i % len(key)] for i, d in enumerate(data))


def ref_artifacts(img: bytes, start: int, maxrange):
    out = []
    pos = start
    while True:
        if maxrange is not None and pos > maxrange:
            break
        if pos + 4 > len(img):
            break
        if struct.unpack_from("<I", img, pos)[0] == pos + 16:
            size = int.from_bytes(img[pos + 4:pos + 8], "little")
            key = img[pos + 8:pos + 12]
            hints = img[pos + 12:pos + 20]
            data = img[pos + 20:pos + 20 + size]
            out.append((pos, size, key, hints, _ref_xor(data, key)))
        pos += 1
    return out


def _scan_artifact(res: Result, seam: IoSeam, plan: dict):
    from dissect.cobaltstrike.artifact import iter_artifactkit_payloads
    img = _image_of(plan)
    if plan.get("image") is None:
        res.probes["artifact_image_of_several_64k"] += 1
        seam.budget.limit = 40 * len(img) + 200000
    fh = seam.file(img)
    fh.seek(plan["seek"])
    start = plan["start"]
    eff = plan["seek"] if start is None else start
    try:
        kw = {"start_offset": start, "maxrange": plan["maxrange"]}
        if plan.get("omit_defaults"):
            # documented defaults: start_offset=0 (search from the start), maxrange=None (no limit)
            if start == 0:
                del kw["start_offset"]
            if plan["maxrange"] is None:
                del kw["maxrange"]
            res.probes["defaults_left_out_of_the_call"] += 1
        got = [tuple(a) for a in iter_artifactkit_payloads(fh, **kw)]
    except ReadBudgetExceeded:
        res.violate(("C15", "artifact", "no_termination"), "iter_artifactkit_payloads did not terminate")
        return
    except Exception as e:
        res.violate(("C15", "artifact", "exception", type(e).__name__), f"iter_artifactkit_payloads raised {e!r}")
        return
    want = ref_artifacts(img, eff, plan["maxrange"])
    res.log.log("artifact", len(img), start, plan["seek"], plan["maxrange"], tuple(g[0] for g in got))
    if want:
        res.nontrivial = True
        res.probes["artifact_hit"] += 1
        if any(b[0] - a[0] < 20 for a, b in zip(want, want[1:])):
            res.probes["artifact_overlap"] += 1
        if any(w[0] + 20 + min(w[1], 1 << 20) > len(img) for w in want):
            res.probes["artifact_eof_cut"] += 1
    if plan["maxrange"] is not None:
        res.probes["artifact_maxrange"] += 1
    if got != want:
        go, wo = [g[0] for g in got], [w[0] for w in want]
        kind = "offsets" if go != wo else "fields"
        res.violate(("C15", "artifact", kind),
                    f"iter_artifactkit_payloads(image={_hh(img)}, start={start}, seek={plan['seek']}, "
                    f"maxrange={plan['maxrange']}): offsets {go} vs reference {wo}; "
                    f"first differing entry: {next(((g, w) for g, w in zip(got, want) if g != w), None)}")


def execute(plan: dict) -> Result:
    res = Result()
    B = plan.get("B", 8192)
    budget = Budget(200000)
    with IoSeam(buffer_size=B, budget=budget) as seam:
        if plan["kind"] == "needle":
            hay, needle = _hay_of(plan), unhx(plan["needle"])
            if plan.get("hay") is None:
                res.probes["haystack_of_several_default_buffers"] += 1
                budget.limit = 50 * len(hay) + 200000
            res.cases = len(plan["scans"])
            for k, scan in enumerate(plan["scans"]):
                budget.used = 0
                _scan_needle(res, seam, hay, needle, B, scan, lambda: None)
        elif plan["kind"] == "artifact":
            _scan_artifact(res, seam, plan)
        elif plan["kind"] == "grid":
            hl, nl = plan["hay_len"], plan["needle_len"]
            res.cases = 0
            for hbits in itertools.product((0, 1), repeat=hl):
                hay = bytes(hbits)
                for nbits in itertools.product((0, 1), repeat=nl):
                    needle = bytes(nbits)
                    for start in [None] + list(range(0, hl + 1)):
                        scan = {"start": start, "seek": 0 if start is None else 1 % (hl + 1), "max": 0}
                        budget.used = 0
                        res.cases += 1

                        def narrow(hay=hay, needle=needle, scan=scan):
                            return {"kind": "needle", "hay": hx(hay), "needle": hx(needle), "B": B, "scans": [scan],
                                    "format": plan.get("format"), "property": ID, "run_seed": plan.get("run_seed"),
                                    "population": "sys-narrowed", "run_index": plan.get("run_index")}
                        _scan_needle(res, seam, hay, needle, B, scan, narrow)
        else:
            raise core.HarnessError(f"unknown plan kind {plan['kind']}")
    return res


# ------------------------------------------------------------------------------------------- shrinking

def candidates(plan: dict):
    if plan["kind"] == "needle":
        yield from core.shrink_list(plan, ["scans"], min_len=1)
        if plan.get("hay") is not None:
            yield from core.shrink_hex(plan, ["hay"])
        else:
            yield from core.shrink_list(plan, ["hay_gen", "plants"], min_len=1)
            yield from core.shrink_int(plan, ["hay_gen", "len"], toward=8193)
        yield from core.shrink_hex(plan, ["needle"], min_len=1)
        yield from core.shrink_int(plan, ["B"], toward=1)
        for i in range(len(plan["scans"])):
            yield from core.shrink_int(plan, ["scans", i, "seek"])
            yield from core.shrink_int(plan, ["scans", i, "max"])
            if plan["scans"][i]["start"] is not None:
                yield from core.shrink_int(plan, ["scans", i, "start"])
    elif plan["kind"] == "artifact":
        if plan.get("image") is not None:
            yield from core.shrink_hex(plan, ["image"])
        else:
            yield from core.shrink_list(plan, ["image_gen", "plants"], min_len=1)
        yield from core.shrink_int(plan, ["seek"])
        if plan["start"] is not None:
            yield from core.shrink_int(plan, ["start"])
        if plan["maxrange"] is not None:
            yield core._set(plan, ["maxrange"], None)
            yield from core.shrink_int(plan, ["maxrange"])
