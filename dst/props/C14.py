"""C14 — a parsed beacon configuration is an immutable value (World H: histories of uses of one object).

One long-lived BeaconConfig is used in every way the property lists, in seeded and systematically enumerated
orders; after every operation a deep snapshot must equal a never-used twin's, and the operation's result must
equal the result of the same operation on a brand-new configuration. (The same snapshot comparison also runs as an
invariant at the end of every World S session.)
"""
from __future__ import annotations

import itertools

from dst import core
from dst.core import Result, hx, unhx
from dst.session.config import config_block, gen_config, rsa_key
from dst.session.light import LightSeams
from dst.session import refcodec as rc

ID = "C14"
LEVEL = "exploration"
RUNS = {"quick": 1500, "thorough": 30000}
CHUNK = {"quick": 10, "thorough": 50}
OPS = ["view:settings", "view:settings_by_index", "view:raw_settings", "view:raw_settings_by_index", "map:name:pretty",
       "map:const:raw", "map:enum:noparse", "map:name:noparse", "map:const:noparse", "rsa_session", "props", "repr", "c2http:rsa", "c2http:aes_rand", "c2http:aes_hmac",
       "c2http:aes_noverify", "client_dry", "client_dry:args", "client_dry:defaults", "dunders", "profile_text", "profile_dict", "transform_get", "transform_post",
       "transform_server", "transform_get_noreq", "transform_post_noreq", "recover_roundtrip", "iter_recover", "mutate_attempt"]
PROBES = ["op_" + o.replace(":", "_") for o in OPS] + ["real_sample_config", "generated_config", "history_len>=10",
                                                        "consumer_then_observe", "pair_sweep", "pivot_config_without_domains", "sample_constructed_full",
                                                        "sample_constructed_bare", "companion_observed_first", "damaged_config_views_raise"]
RULE = ("systematic population: every ordered pair of the 30 operation kinds (view access, settings_map variants, derived "
        "properties, repr, C2Http with each key variant, HttpBeaconClient dry run, profile generation text/dict, "
        "transform/recover/iter_recover_http on decoders built so far, mutation attempts) followed by a final observation, "
        "on 3 generated configurations (quick) / 8 (thorough), triples in thorough on one configuration; seeded population: "
        "histories of 1-24 operations on generated HTTP configurations (40% with extra / unknown settings), generated SMB/TCP pivot configurations (no domains) and the configurations of the 6 real HTTP/DNS samples. "
        "After every op: deep snapshot == never-used twin; op result == same op on a brand-new configuration; mapping "
        "mutation raises TypeError. non-trivial = the history builds a consumer (decoder, client or profile) and "
        "observes the configuration afterwards; distinct = distinct digest")
ASSUMPTIONS = [
    "results are compared after canonicalisation (reprs of views, decoder attributes and step lists, client attributes, profile text); PRNG seams are reseeded identically before both executions of an op",
    "callers do not mutate the lists inside the returned mappings themselves (not in the property's list of uses)",
    "DNS sample configurations only get the operations that apply to non-HTTP beacons (views, maps, properties, profile generation)",
]
REAL = ["beacon.BeaconConfig (views, settings_map, derived properties)", "c2.C2Http.__init__", "c2.HttpDataTransform",
        "client.HttpBeaconClient.run(dry_run=True)", "c2profile.C2Profile.from_beacon_config/as_text/as_dict"]
STUB = ["never-used twin + fresh twin per operation (reference)", "seeded PRNG seams", "history generator"]

_SAMPLES = ["1897a6cdf17271807bd6ec7c60fffea3", "37882262c9b5e971067fd989b26afe28", "3fdf92571d10485b05904e35c635c655",
            "4f571c0bc97c20eefc58fa3faf32148d", "5a197a8bb628a2555f5a86c51b85abd7", "a1573fe60c863ed40fffe54d377b393a"]
_sample_blocks = {}


def sample_block(name):
    if name not in _sample_blocks:
        from dissect.cobaltstrike.beacon import BeaconConfig
        from dst.props.C08 import load_sample
        _sample_blocks[name] = BeaconConfig.from_bytes(load_sample(name), xor_keys=[b"\x69", b"\x2e", b"\xaf", b"\xcc"]).config_block
    return _sample_blocks[name]


def pivot_block(pv) -> bytes:
    from dst.storage import builder
    pub = rsa_key(pv["rsa"]).publickey().export_key("DER")
    st = [[1, "short", pv["proto"]], [2, "short", pv["port"]], [3, "int", pv["sleeptime"]], [4, "int", 1048576],
          [5, "short", pv["jitter"]], [7, "ptr", hx(pub.ljust(256, b"\x00"))]]
    if pv["domains_field"] == "zeros":
        st.append([8, "ptr", "00" * 256])
    st += [[15, "ptr", hx(pv["pipename"].encode().ljust(128, b"\x00"))], [37, "int", pv["watermark"]]]
    st += [list(e) for e in pv["extra"]]
    return builder.encode_settings(st, terminator=True, pad_to=4096)


_XOR_KEYS = [b"\x69", b"\x2e", b"\xaf", b"\xcc"]
_FRESH_REF = {}      # (sample, mode) -> parts as a brand-new PROCESS reports them (nothing else done in that process before)
_pristine = {}       # (sample, mode) -> never-used object kept for copy.copy()


def construct(name, mode):
    """mode "full": extracted from the stored payload (carries PE metadata); "bare": built from the configuration block."""
    from dissect.cobaltstrike.beacon import BeaconConfig
    from dst.props.C08 import load_sample
    if mode == "full":
        return BeaconConfig.from_bytes(load_sample(name), xor_keys=_XOR_KEYS)
    return BeaconConfig(sample_block(name))


def pristine_copy(name, mode):
    import copy
    if (name, mode) not in _pristine:
        _pristine[(name, mode)] = construct(name, mode)
    return copy.copy(_pristine[(name, mode)])


def _fresh_one(key):
    import json
    import os
    import subprocess
    import sys
    name, mode = key
    code = ("import sys, os, json\n"
            "sys.path.insert(0, %r)\n"
            "r = os.environ.get('VERIF_REPO')\n"
            "if r: sys.path.insert(0, r)\n"
            "from dst.props import C14\n"
            "print('PARTS ' + json.dumps(C14.parts_of(C14.construct(%r, %r))))\n" % (
                os.path.dirname(os.path.dirname(os.path.dirname(os.path.abspath(__file__)))), name, mode))
    p = subprocess.run([sys.executable, "-c", code], capture_output=True, text=True, timeout=300)
    line = next((ln for ln in p.stdout.splitlines() if ln.startswith("PARTS ")), None)
    if line is None:
        raise core.HarnessError(f"fresh-process reference for {key} failed: {p.stderr[-400:]}")
    return json.loads(line[6:])


def prepare(tier=None):
    """Called once per check / replay before any run: what a brand-new process reports for each sample configuration, in
    both construction modes. This is the only reference that state kept in process globals cannot have touched."""
    from concurrent.futures import ThreadPoolExecutor
    keys = [(n, m) for n in _SAMPLES for m in ("full", "bare") if (n, m) not in _FRESH_REF]
    if keys:
        with ThreadPoolExecutor(max_workers=12) as ex:
            for k, v in zip(keys, ex.map(_fresh_one, keys)):
                _FRESH_REF[k] = v


def fresh_ref(name, mode):
    if (name, mode) not in _FRESH_REF:
        _FRESH_REF[(name, mode)] = _fresh_one((name, mode))
    return _FRESH_REF[(name, mode)]


def _sys_cfgs(tier):
    import random
    n = 3 if tier == "quick" else 8
    return [gen_config(random.Random(1000 + i), allow_uri_append=(i % 2 == 1), allow_static_param=True, rsa="rsa1024_a") for i in range(n)]


def _sys_list(tier):
    out = []
    for ci in range(3 if tier == "quick" else 8):
        for a in range(len(OPS)):
            out.append((ci, [a], "pairs_from"))
    if tier == "thorough":
        for a in range(len(OPS)):
            for b in range(len(OPS)):
                out.append((0, [a, b], "triples_from"))
    return out


def systematic_count(tier):
    return len(_sys_list(tier))


def systematic_plan(tier, index):
    ci, prefix, kind = _sys_list(tier)[index]
    return {"world": "H", "config": _sys_cfgs(tier)[ci], "sweep": {"prefix": [OPS[i] for i in prefix]}}


def generate(rng, tier, index):
    n = rng.choice([1, 2, 3, 4, 6, 8, 12, 16, 24])
    ops = [rng.choice(OPS) for _ in range(n)]
    if rng.random() < 0.25:
        # the object under test is either extracted from the stored payload ("full": it also carries PE metadata) or built
        # from the bare configuration block; a companion object over the SAME bytes in the other mode lives in the process
        # too and is looked at before or after the history
        return {"world": "H", "sample": rng.choice(_SAMPLES), "ops": ops, "construct": rng.choice(["full", "bare"]),
                "companion": rng.choice(["before", "after", "none"])}
    if rng.random() < 0.15:
        # SMB / TCP pivot beacon: no C2 domains at all (SETTING_DOMAINS present but empty), a pipe name instead
        extra = []
        for _ in range(rng.randint(0, 3)):
            idx = rng.choice([rng.randint(100, 400), rng.randint(401, 65535), 29, 30, 35, 38, 39])
            if idx in (29, 30):
                extra.append([idx, "ptr", hx(b"%windir%\\sysnative\\rundll32.exe".ljust(64, b"\x00"))])
            elif idx in (35, 38, 39):
                extra.append([idx, "short", rng.choice([0, 1, 2])])
            else:
                extra.append([idx, rng.choice(["short", "int"]), rng.getrandbits(16)])
        return {"world": "H", "ops": ops,
                "pivot": {"proto": rng.choice([2, 2, 4, 16]), "port": rng.choice([445, 4444, rng.randint(1, 65535)]),
                          "sleeptime": rng.choice([0, 10000, 60000]), "jitter": rng.choice([0, 10]),
                          "pipename": "\\\\.\\pipe\\msagent_" + "%02x" % rng.getrandbits(8), "rsa": "rsa1024_a",
                          "domains_field": rng.choice(["zeros", "zeros", "absent"]), "watermark": rng.getrandbits(32),
                          "extra": [e for i, e in enumerate(extra) if e[0] not in [x[0] for x in extra[:i]]]}}
    cfg = gen_config(rng, allow_uri_append=rng.random() < 0.3, allow_static_param=rng.random() < 0.5,
                     rsa=rng.choice(["rsa1024_a", "rsa2048_a"]))
    if rng.random() < 0.15:
        # one setting index occurring twice, with other settings behind it (legal: the later record wins in the mappings)
        idx = rng.choice([rng.randint(100, 400), 36, 35])
        t = "short" if idx in (35, 36) else rng.choice(["short", "int"])
        cfg["extra"] = [e for e in cfg.get("extra", []) if e[0] != idx] + [[idx, t, rng.getrandbits(16)], [rng.randint(401, 9000), "int", rng.getrandbits(32)],
                                                                          [idx, t, rng.getrandbits(16)], [rng.randint(9001, 65000), "short", rng.getrandbits(16)]]
        cfg["duplicate_setting"] = idx
        if idx == 36 and rng.random() < 0.6:
            # index 36 once as a short (the deprecated inject options) and once as a pointer (the watermark hash): one number,
            # two names - in either order, with other settings in between
            a = [36, "short", rng.getrandbits(16)]
            b = [36, "ptr", hx(bytes(rng.getrandbits(8) for _ in range(rng.choice([16, 32]))))]
            first, second = (a, b) if rng.random() < 0.5 else (b, a)
            cfg["extra"] = [e for e in cfg["extra"] if e[0] != 36][:1] + [first, [rng.randint(401, 9000), "int", rng.getrandbits(32)], second,
                                                                         [rng.randint(9001, 65000), "short", rng.getrandbits(16)]]
            cfg["setting_36_under_both_types"] = True
    if rng.random() < 0.08:
        # a damaged configuration: one setting whose pretty function fails (DNS idle address of the wrong length). The pretty
        # views and everything built on them then raise - every time, the same way, whatever was done before
        cfg["extra"] = [e for e in cfg.get("extra", []) if e[0] != 19] + [[19, "ptr", hx(bytes(rng.getrandbits(8) for _ in range(rng.choice([3, 5, 16]))))]]
        cfg["damaged"] = True
    return {"world": "H", "config": cfg, "ops": ops}


# ------------------------------------------------------------------------------------------- operations

def snapshot(bc) -> str:
    from dst.session.world import snapshot_config
    try:
        return snapshot_config(bc)
    except Exception as e:  # noqa: BLE001 - observing the configuration must never fail
        return f"OBSERVATION-FAILED:{type(e).__name__}:{e}"


PARTS = {
    "settings": lambda bc: repr(list(bc.settings.items())),
    "settings_by_index": lambda bc: repr(list(bc.settings_by_index.items())),
    "raw_settings": lambda bc: repr(list(bc.raw_settings.items())),
    "raw_settings_by_index": lambda bc: repr(list(bc.raw_settings_by_index.items())),
    "settings_tuple": lambda bc: repr([(s.index.value, s.type.value, s.length, bytes(s.value)) for s in bc.settings_tuple]),
    "config_block": lambda bc: repr(bc.config_block),
    "derived": lambda bc: repr((bc.domains, bc.uris, bc.domain_uri_pairs, bc.submit_uri, bc.killdate, bc.protocol, bc.port,
                                bc.watermark, bc.is_trial, bc.public_key, bc.sleeptime, bc.jitter, bc.xorkey, bc.xorencoded,
                                bc.setting_enums, bc.max_setting_enum)),
    "repr": lambda bc: repr(bc),
    "version": lambda bc: repr((str(bc.version), bc.pe_export_stamp, bc.pe_compile_stamp, bc.architecture)),
}


def parts_of(bc) -> dict:
    out = {}
    for name, fn in PARTS.items():
        try:
            out[name] = fn(bc)
        except Exception as e:  # noqa: BLE001 - observing the configuration must never fail
            out[name] = f"OBSERVATION-FAILED:{type(e).__name__}:{e}"
    return out


def reference_parts(block) -> dict:
    """Every observable part as a *brand-new* object reports it when that part is the very first thing asked of it:
    the reference must not depend on the order in which a snapshot happens to read the views."""
    from dissect.cobaltstrike.beacon import BeaconConfig
    out = {}
    for name, fn in PARTS.items():
        try:
            out[name] = fn(BeaconConfig(block))
        except Exception as e:  # noqa: BLE001 - a damaged configuration: the failure itself is the reference
            out[name] = f"OBSERVATION-FAILED:{type(e).__name__}:{e}"
    return out


class State:
    cfgplan = None

    def __init__(self, bc, priv, is_http):
        self.bc = bc
        self.priv = priv
        self.decoders = []
        self.is_http = is_http


def _canon_c2http(c):
    return repr((c.submit_uri, c.submit_verb, c.get_uris, c.get_verb, c.transform_get.tsteps, c.transform_get.rsteps,
                 c.transform_submit.tsteps, c.transform_submit.rsteps, c.transform_response.tsteps, c.transform_response.rsteps,
                 c.aes_key, c.hmac_key, c.verify_hmac, c.beacon_keys))


def _decoder(st: State):
    from dissect.cobaltstrike.c2 import C2Http
    # transform/recover ops use one dedicated keyed decoder per configuration object, built at its first use (so it
    # may have been built many operations ago) - which decoder is used must not depend on the history itself
    if getattr(st, "keyed", None) is None:
        st.keyed = C2Http(st.bc, aes_key=b"K" * 16, hmac_key=b"H" * 16)
    return st.keyed


def run_op(op: str, st: State, seams) -> str:
    from dissect.cobaltstrike.c2 import C2Data, C2Http, HttpRequest, HttpResponse, encrypt_packet
    from dissect.cobaltstrike.c2profile import C2Profile
    from dissect.cobaltstrike.client import HttpBeaconClient
    from dissect.cobaltstrike.beacon import BeaconConfig as BeaconConfig_
    seams.rng.seed(12345)
    st.nops = getattr(st, "nops", 0) + 1
    if op == "client_dry:defaults":
        # beacon id and pid are given: the set-up is then a function of them alone, in whatever state earlier uses left the
        # process-wide generator (here: a state that depends on how much was done with this object before)
        seams.rng.seed(777000 + st.nops)
    bc = st.bc
    if op.startswith("view:"):
        return repr(list(getattr(bc, op[5:]).items()))
    if op.startswith("map:"):
        _, it, mode = op.split(":")
        m = bc.settings_map(index_type=it, pretty=(mode == "pretty"), parse=(mode != "noparse"))
        return repr([(str(k), v) for k, v in m.items()])
    if op == "props":
        return repr((bc.domains, bc.uris, bc.domain_uri_pairs, bc.submit_uri, bc.killdate, bc.protocol, bc.port, bc.watermark,
                     bc.is_trial, bc.public_key, bc.sleeptime, bc.jitter, str(bc.version), bc.max_setting_enum, bc.setting_enums))
    if op == "repr":
        return repr(bc)
    if op == "mutate_attempt":
        out = []
        for name in ("settings", "settings_by_index", "raw_settings", "raw_settings_by_index"):
            m = getattr(bc, name)
            k = next(iter(m))
            before = repr(list(m.items()))
            for what in ("set", "del", "setnew", "ior", "update", "pop", "popitem", "setdefault", "clear", "dunder_ior"):
                m = getattr(bc, name)
                try:
                    if what == "set":
                        m[k] = 1
                    elif what == "del":
                        del m[k]
                    elif what == "setnew":
                        m["__new__"] = 1
                    elif what == "ior":
                        m |= {k: 1, "__new__": 2}
                    elif what == "update":
                        m.update({k: 1})
                    elif what == "pop":
                        m.pop(k)
                    elif what == "popitem":
                        m.popitem()
                    elif what == "setdefault":
                        m.setdefault("__new__", 1)
                    elif what == "clear":
                        m.clear()
                    else:
                        m.__ior__({k: 1})
                    verdict = "no-exception"
                except (TypeError, AttributeError) as e:
                    verdict = type(e).__name__
                # rejected = an exception, or (e.g. `|=` on a read-only proxy, which rebinds the caller's name) no effect
                if repr(list(getattr(bc, name).items())) != before:
                    verdict = "ACCEPTED"
                out.append((name, what, verdict if verdict == "ACCEPTED" else "rejected"))
        return repr(out)
    if op == "profile_text":
        return C2Profile.from_beacon_config(bc).as_text()
    if op == "profile_dict":
        d = C2Profile.from_beacon_config(bc).as_dict()
        return repr(sorted((k, [str(x) if not isinstance(x, (tuple, bytes)) else x for x in v]) for k, v in d.items()))
    if not st.is_http:
        return "n/a"
    if op == "rsa_session":
        # a brand-new decoder that holds nothing but the RSA key sees one and the same session: a check-in, then the task
        # sent in reply (the PRNG seams are re-seeded before every operation, so the very same bytes every time)
        if st.priv is None:
            return "n/a"
        from dissect.cobaltstrike.c2 import BeaconMetadata, encrypt_metadata
        from dissect.cobaltstrike.c2 import ClientC2Data
        md = BeaconMetadata()
        md.magic, md.bid, md.pid, md.aes_rand, md.info = 0xBEEF, 4242, 7, b"S" * 16, b"pc\tuser\tp.exe"
        dec = C2Http(bc, rsa_private_key=st.priv)
        import Crypto.Random as _cr
        from dst.session.kernel import SeededBytes
        _saved = _cr.get_random_bytes
        _cr.get_random_bytes = SeededBytes("rsa_session")       # the same PKCS#1 padding, hence the same blob, every time
        try:
            blob = encrypt_metadata(md, public_key=dec.pub)
        finally:
            _cr.get_random_bytes = _saved
        req = dec.transform_get.transform(C2Data(metadata=blob), request=HttpRequest(method=dec.get_verb, uri=dec.get_uris[0], params={},
                                                                                 headers={}, body=b""))
        first = [type(p_).__name__ for p_ in dec.iter_recover_http(req)]
        import hashlib
        d_ = hashlib.sha256(b"S" * 16).digest()
        ep = encrypt_packet(b"\x00\x00\x00\x01\x00\x00\x00\x08\x00\x00\x00\x27\x00\x00\x00\x00", d_[:16], d_[16:])
        body = dec.transform_response.transform(C2Data(output=ep.ciphertext + ep.signature)).body
        pk = list(dec.iter_recover_http(HttpResponse(status=200, reason=b"OK", headers={}, body=body)))
        st.decoders.append(dec)
        return repr((first, [(type(p_).__name__, int(p_.command)) for p_ in pk]))
    if op.startswith("c2http:"):
        v = op[7:]
        rand = b"R" * 16
        import hashlib
        d = hashlib.sha256(rand).digest()
        if v == "rsa":
            c = C2Http(bc, rsa_private_key=st.priv) if st.priv is not None else C2Http(bc, aes_rand=rand)
        elif v == "aes_rand":
            c = C2Http(bc, aes_rand=rand)
        elif v == "aes_hmac":
            c = C2Http(bc, aes_key=d[:16], hmac_key=d[16:])
        else:
            c = C2Http(bc, aes_key=d[:16], verify_hmac=False)
        st.decoders.append(c)
        return _canon_c2http(c)
    if op == "dunders":
        # protocol-level uses of the object itself: hashing, comparison, membership, copying, pickling support probes
        import copy
        h1 = hash(bc) == hash(bc)
        e1 = (bc == bc, bc != bc, bc in {bc}, bc in [bc])
        c1 = copy.copy(bc)
        # (copy.deepcopy is not used: on the pinned tree it only works before any cached view exists - mappingproxy objects
        # cannot be deep-copied - and deep copies are not among the uses the property lists)
        return repr((h1, e1, repr(list(c1.raw_settings.items())) == repr(list(BeaconConfig_(bc.config_block).raw_settings.items()))))
    if op in ("client_dry", "client_dry:args") and op == "client_dry:args":
        c = HttpBeaconClient()
        c.run(bc, dry_run=True, beacon_id=4242, user="u", computer="c", process="p.exe", internal_ip="10.0.0.1", arch="x86", barch="x64",
              pid=7, host_header="Host: explicit.example", user_agent="explicit-UA/2.0", domain="override.example", port=8443,
              scheme="http", sleeptime=1234, jitter=7, high_integrity=True)
        st.decoders.append(c.c2http)
        return repr((c.beacon_id, c.aes_rand, c.metadata.dumps(), c.base_url, c.get_uri, c.task_url, c.submit_uri, c.callback_url,
                     c.sleeptime, c.jitter, c.user_agent, c.host_header, c.get_verb, c.submit_verb, c.domain, c.port, c.scheme,
                     _canon_c2http(c.c2http), repr(c._initial_get_request()), repr(c._initial_post_request())))
    if op == "client_dry:defaults":
        # names, process and internal address left to the client: it draws them from a generator seeded with the beacon id, so
        # the set-up for one id is the same every time
        out = []
        for bid in (4242, 1234566, 86, 2 ** 31 - 2):
            c = HttpBeaconClient()
            c.run(bc, dry_run=True, beacon_id=bid, pid=7)
            out.append((c.beacon_id, c.aes_rand, c.metadata.dumps(), c.user, c.computer, c.process, str(c.internal_ip), c.base_url,
                        c.get_uri, c.task_url, c.callback_url, c.domain))
        st.decoders.append(c.c2http)
        return repr(out)
    if op == "client_dry":
        c = HttpBeaconClient()
        c.run(bc, dry_run=True, beacon_id=4242, user="u", computer="c", process="p.exe", internal_ip="10.0.0.1", arch="x64", pid=7)
        st.decoders.append(c.c2http)
        return repr((c.beacon_id, c.aes_rand, c.metadata.dumps(), c.base_url, c.get_uri, c.task_url, c.submit_uri, c.callback_url,
                     c.sleeptime, c.jitter, c.user_agent, c.host_header, c.get_verb, c.submit_verb, c.domain, c.port, c.scheme,
                     _canon_c2http(c.c2http)))
    c = _decoder(st)
    init = HttpRequest(method=b"GET", uri=b"", params={}, headers={b"User-Agent": b"x"}, body=b"")
    if op == "transform_get":
        r = c.transform_get.transform(C2Data(metadata=b"M" * 128), request=init)
        return repr((r.uri, sorted(r.params.items()), sorted(r.headers.items()), r.body))
    if op == "transform_post":
        r = c.transform_submit.transform(C2Data(id=b"4242", output=b"O" * 52), request=init)
        return repr((r.uri, sorted(r.params.items()), sorted(r.headers.items()), r.body))
    if op in ("transform_get_noreq", "transform_post_noreq"):
        if op == "transform_get_noreq":
            r = c.transform_get.transform(C2Data(metadata=b"M" * 128))
            prog = "get"
        else:
            r = c.transform_submit.transform(C2Data(id=b"4242", output=b"O" * 52))
            prog = "post"
        stale = ""
        if getattr(st, "cfgplan", None):
            # a message built from scratch carries nothing but what its program prescribes - whatever was transformed before
            steps = st.cfgplan[prog]
            allowed = {rc.arg(x).partition(b": ")[0] for x in steps if x[0] in ("_header", "_hostheader")} | \
                      {rc.arg(x) for x in steps if x[0] == "header"} | \
                      {rc.arg(x).partition(b"=")[0] for x in steps if x[0] == "_parameter"} | {rc.arg(x) for x in steps if x[0] == "parameter"}
            extra = sorted(k for k in list(r.headers) + list(r.params) if k not in allowed)
            if extra:
                stale = f" STALE-PARTS:{extra!r}"
        return repr((r.uri, sorted(r.params.items()), sorted(r.headers.items()), r.body)) + stale
    if op == "transform_server":
        r = c.transform_response.transform(C2Data(output=b"T" * 48))
        return repr(r.body)
    if op == "recover_roundtrip":
        r = c.transform_submit.transform(C2Data(id=b"4242", output=b"O" * 52), request=init)
        back = c.transform_submit.recover(r)
        r2 = c.transform_response.transform(C2Data(output=b"T" * 48))
        back2 = c.transform_response.recover(HttpResponse(status=200, reason=b"OK", headers={}, body=r2.body))
        return repr((back.id, back.output, back2.output))
    if op == "iter_recover":
        keys = c.beacon_keys
        if not keys.aes_key or not keys.hmac_key:
            return "no-keys"
        ep = encrypt_packet(b"\x00\x00\x00\x01\x00\x00\x00\x08\x00\x00\x00\x27\x00\x00\x00\x00", keys.aes_key, keys.hmac_key)
        body = c.transform_response.transform(C2Data(output=ep.ciphertext + ep.signature)).body
        pk = list(c.iter_recover_http(HttpResponse(status=200, reason=b"OK", headers={}, body=body)))
        return repr([(type(p).__name__, int(p.command), bytes(p.data)) for p in pk])
    raise core.HarnessError(f"unknown op {op}")


def execute(plan: dict) -> Result:
    from dissect.cobaltstrike.beacon import BeaconConfig
    res = Result()
    mode = None
    if "sample" in plan:
        block = sample_block(plan["sample"])
        priv = None
        mode = plan.get("construct", "bare")
        res.probes["real_sample_config"] += 1
        res.probes["sample_constructed_" + mode] += 1
    elif "pivot" in plan:
        block = pivot_block(plan["pivot"])
        priv = None
        res.probes["pivot_config_without_domains"] += 1
    else:
        block = config_block(plan["config"])
        priv = rsa_key(plan["config"]["rsa"])
        res.probes["generated_config"] += 1
    if "sweep" in plan:
        res.probes["pair_sweep"] += 1
        histories = [plan["sweep"]["prefix"] + [b, "props"] for b in OPS]
    else:
        histories = [plan["ops"]]
    res.cases = 0
    with LightSeams(plan.get("run_seed", "0" * 16)) as seams:
        def new_config():
            return pristine_copy(plan["sample"], mode) if mode == "full" else BeaconConfig(block)

        companion = None
        if mode and plan.get("companion") == "before":
            companion = construct(plan["sample"], "bare" if mode == "full" else "full")
            parts_of(companion)
            res.probes["companion_observed_first"] += 1
        twin = new_config()
        twin_snap = snapshot(twin)
        damaged = bool((plan.get("config") or {}).get("damaged"))
        if twin_snap.startswith("OBSERVATION-FAILED") and not damaged:
            raise core.HarnessError(f"cannot observe a brand-new configuration: {twin_snap}")
        if damaged:
            res.probes["damaged_config_views_raise"] += 1
        try:
            ref_parts = fresh_ref(plan["sample"], mode) if mode else reference_parts(block)
        except core.HarnessError:
            raise
        except Exception as e:
            raise core.HarnessError(f"cannot observe a brand-new configuration: {e!r}")
        is_http = twin.protocol in ("http", "https") and not twin.is_trial and bool(twin.public_key)
        for hist in histories:
            shared = State(construct(plan["sample"], mode) if mode == "full" else BeaconConfig(block), priv, is_http)
            State.cfgplan = plan.get("config")
            built_consumer = False
            if len(hist) >= 10:
                res.probes["history_len>=10"] += 1
            for i, op in enumerate(hist):
                res.cases += 1
                res.probes["op_" + op.replace(":", "_")] += 1
                fresh = State(new_config(), priv, is_http)
                try:
                    want = run_op(op, fresh, seams)
                except Exception as e:
                    want = f"EXC:{type(e).__name__}:{e}"
                try:
                    got = run_op(op, shared, seams)
                except Exception as e:
                    got = f"EXC:{type(e).__name__}:{e}"
                res.log.log("op", i, op, got)
                if built_consumer:
                    res.probes["consumer_then_observe"] += 1
                    res.nontrivial = True
                if op.startswith("c2http") or op in ("client_dry", "client_dry:args", "client_dry:defaults", "rsa_session", "profile_text", "profile_dict") or op.startswith("transform") \
                        or op in ("recover_roundtrip", "iter_recover"):
                    built_consumer = True
                if op == "mutate_attempt" and "ACCEPTED" in got:
                    res.violate(("C14", "mapping_accepts_mutation"), f"a settings mapping accepted a mutation: {got}")
                    break
                if "STALE-PARTS:" in got:
                    res.violate(("C14", "result_depends_on_history", op.split(":")[0], "stale_parts"),
                                f"after {hist[:i]} (and whatever ran before in this process) {op} produced a message with parts its "
                                f"program does not prescribe: {got[got.index('STALE-PARTS:'):][:300]}", _narrow(plan, hist[:i + 1]))
                    break
                if got != want:
                    res.violate(("C14", "result_depends_on_history", op.split(":")[0], _first_consumer(hist[:i])),
                                f"after {hist[:i]} the operation {op} gives a different result than on a brand-new "
                                f"configuration:\n got  {got[:400]}\n want {want[:400]}",
                                _narrow(plan, hist[:i + 1]))
                    break
                snap = snapshot(shared.bc)
                if snap.startswith("OBSERVATION-FAILED") and snap != twin_snap:
                    res.violate(("C14", "observation_fails_after_history", op.split(":")[0]),
                                f"after {hist[:i + 1]} the configuration can no longer be observed: {snap}", _narrow(plan, hist[:i + 1]))
                    break
                if snap != twin_snap:
                    res.violate(("C14", "config_changed", op.split(":")[0]),
                                f"after {hist[:i + 1]} the configuration differs from its never-used twin: {_diff(shared.bc, twin)}",
                                _narrow(plan, hist[:i + 1]))
                    break
                now = parts_of(shared.bc)
                bad = [k for k in PARTS if now[k] != ref_parts[k]]
                if bad:
                    k = bad[0]
                    j = next((j for j, (a, b) in enumerate(zip(now[k], ref_parts[k])) if a != b), 0)
                    res.violate(("C14", "observation_depends_on_history", k),
                                f"after {hist[:i + 1]} (+ the snapshot reading all views in the order settings, settings_by_index, "
                                f"raw_settings, raw_settings_by_index) {k} is not what a brand-new configuration reports when asked "
                                f"first: ..{now[k][max(0, j - 60):j + 100]!r} vs ..{ref_parts[k][max(0, j - 60):j + 100]!r}",
                                _narrow(plan, hist[:i + 1]))
                    break
        if mode and plan.get("companion") in ("before", "after") and not res.violations:
            other = "bare" if mode == "full" else "full"
            companion = companion or construct(plan["sample"], other)
            now = parts_of(companion)
            want_c = fresh_ref(plan["sample"], other)
            bad = [k for k in PARTS if now[k] != want_c[k]]
            if bad:
                res.violate(("C14", "other_object_over_same_bytes_affected", bad[0], other),
                            f"a second configuration object over the same bytes (constructed '{other}', looked at "
                            f"{plan['companion']} the history {histories[0][:8]}..) reports {bad[0]} = {now[bad[0]][:200]!r}; a brand-new "
                            f"process reports {want_c[bad[0]][:200]!r}")
        if mode is None and not res.violations and snapshot(twin) != twin_snap:
            # the twin was never used - it was only LOOKED AT, at the start and now
            res.violate(("C14", "observation_not_repeatable", "damaged" if damaged else "intact"),
                        "a configuration object that was only observed (all views and derived properties read once at the start "
                        "of the run) reports something else when observed a second time at the end")
    return res


def _first_consumer(hist):
    for op in hist:
        if op.startswith("c2http") or op in ("client_dry", "client_dry:args", "client_dry:defaults", "rsa_session", "profile_text", "profile_dict") or op.startswith("transform") or \
                op in ("recover_roundtrip", "iter_recover"):
            return "after:" + op.split(":")[0]
    return "after:reads_only"


def _narrow(plan, hist):
    p = {k: v for k, v in plan.items() if k not in ("sweep", "ops")}
    p["ops"] = list(hist)
    return p


def _diff(a, b):
    out = []
    for name in ("settings", "settings_by_index", "raw_settings", "raw_settings_by_index"):
        x, y = getattr(a, name), getattr(b, name)
        for k in y:
            if repr(x.get(k)) != repr(y.get(k)):
                out.append(f"{name}[{k}]: {y.get(k)!r:.100} -> {x.get(k)!r:.100}")
    return "; ".join(out[:3]) or "derived properties / tuple differ"


def candidates(plan: dict):
    if "ops" in plan:
        yield from core.shrink_list(plan, ["ops"], min_len=1)
    if "config" in plan:
        for prog in ("get", "post", "server"):
            steps = plan["config"][prog]
            for j, st in enumerate(steps):
                if st[0] in rc.ENCODERS or st[0] in rc.STATIC:
                    yield core._set(plan, ["config", prog], steps[:j] + steps[j + 1:])
        if len(plan["config"]["domains"]) > 1:
            yield from core.shrink_list(plan, ["config", "domains"], min_len=1)
