"""C16 — raw HTTP messages are parsed into exactly their parts (World S).

The message-shaper of the noise actor serialises requests/responses with the independent serialiser (the second
party on the simulated wire) and the library must parse back exactly the parts; malformed start lines are
constructed, not produced by random corruption. 20% of the runs are full sessions in which every message the
real httpx-built client and the reference server put on the wire is checked the same way.
"""
from __future__ import annotations

from dst import core
from dst.core import Result, hx, unhx
from dst.props import _session
from dst.session import refcodec as rc
from dst.session import sessiongen

ID = "C16"
LEVEL = "exploration"
RUNS = {"quick": 4000, "thorough": 100000}
CHUNK = {"quick": 40, "thorough": 200}
PROBES = ["body_with_crlfcrlf", "body_with_nul", "body_large", "param_binary", "param_plus_encoding", "header_value_colon_space",
          "header_value_high_bytes", "no_headers", "path_with_semicolon", "status_edge", "malformed_rejected",
          "many_params", "session_population", "empty_body", "reparse_after_history", "param_reserved_char_unencoded",
          "header_names_differ_in_case_only", "more_than_64_params", "target_not_an_absolute_path"]
RULE = ("seeded plans: 85% shaped messages - 8-20 messages per plan: requests (token methods, ASCII paths incl. ';', "
        "parameter maps with arbitrary key/value bytes and non-empty values percent-encoded with %20 or '+' (the sender leaves a "
        "random subset of the reserved characters ?/:@!$'()*,;= unencoded), header maps "
        "with values containing ': ' and high bytes, bodies with CRLFCRLF / NULs / up to 64 KiB), responses (status "
        "100-599, single-token reasons) and constructed malformed start lines (0,1,2,4 tokens, HTTP/ prefix with wrong "
        "arity, non-numeric status); 15% full sessions. non-trivial = message has parameters or a body containing "
        "CRLFCRLF or is malformed; distinct = distinct digest")
ASSUMPTIONS = [
    "non-empty parameter values and keys, unique parameter and header keys, single-token reasons, ASCII paths without '?', '#', whitespace and not starting with '//'",
    "header names are tokens (no ': ' inside), header values carry no CR/LF",
    "an empty header map is in the domain (a message may have no header lines)",
]
REAL = ["c2.parse_raw_http"]
STUB = ["independent HTTP serialiser / percent-encoder (message shaper of the noise actor)"]

_TOKEN = "abcdefghijklmnopqrstuvwxyzABCDEFGHIJKLMNOPQRSTUVWXYZ0123456789-_"
_PATHCH = _TOKEN + "./~!$&'()*+,;=:@%"


def _w(rng, lo, hi, alpha=_TOKEN):
    return "".join(rng.choice(alpha) for _ in range(rng.randint(lo, hi)))


def _bytes(rng, lo, hi):
    return bytes(rng.getrandbits(8) for _ in range(rng.randint(lo, hi)))


_COMMON = ["Content-Type", "content-type", "CONTENT-TYPE", "Cookie", "cookie", "Host", "host", "X-Id", "x-id", "X-ID"]


def _headers(rng):
    hs = []
    seen = set()
    case_twins = rng.random() < 0.1
    for _ in range(rng.choice([0, 1, 2, 3, 5, 8])):
        # the same header names come back across messages of one plan in different spellings
        k = rng.choice(_COMMON) if rng.random() < 0.4 else _w(rng, 1, 12)
        # (names are unique as byte strings; one message in ten may carry two names that differ in letter case only - two
        # distinct keys of the header map)
        if (k if case_twins else k.lower()) in seen:
            continue
        seen.add(k if case_twins else k.lower())
        r = rng.random()
        if r < 0.3:
            v = (_w(rng, 0, 8) + ": " + _w(rng, 0, 8)).encode()
        elif r < 0.5:
            v = bytes(rng.choice([rng.randint(0x80, 0xFF), rng.randint(0x21, 0x7E)]) for _ in range(rng.randint(1, 20)))
        elif r < 0.6:
            v = b""
        else:
            v = _w(rng, 1, 30, _TOKEN + " =;,/").encode()
        hs.append([hx(k.encode()), hx(v)])
    if rng.random() < 0.15 and not any(x.lower() == "content-length" for x in seen):
        # a Content-Length that may or may not agree with what follows: the body is everything behind the blank line
        hs.append([hx(rng.choice([b"Content-Length", b"content-length"])), hx(str(rng.choice([0, 1, 5, 100, 10 ** 6])).encode())])
    return hs


def _body(rng):
    r = rng.random()
    if r < 0.25:
        return b""
    if r < 0.45:
        return _bytes(rng, 0, 20) + b"\r\n\r\n" + _bytes(rng, 0, 20) + (b"\r\n" if rng.random() < 0.5 else b"")
    if r < 0.6:
        return b"\x00" * rng.randint(1, 5) + _bytes(rng, 0, 30) + b"\x00"
    if r < 0.66:
        return _bytes(rng, 20000, 65536)
    return _bytes(rng, 1, 300)


def generate(rng, tier, index):
    if rng.random() < 0.15:
        return sessiongen.gen_session(rng, ID, tier)
    msgs = []
    for _ in range(rng.randint(8, 20)):
        r = rng.random()
        if r < 0.5:
            params = []
            seen = set()
            for _ in range(rng.choice([0, 0, 1, 2, 3, 10] * 5 + [64, 65, 66, 100, 130])):
                k = rng.choice([_w(rng, 1, 8).encode(), _bytes(rng, 1, 6)])
                if k in seen:
                    continue
                seen.add(k)
                v = rng.choice([_w(rng, 1, 20).encode(), _bytes(rng, 1, 40), b"a b+c", b"%41", b"=", b"/login?user=bob", b"?",
                                b"a=b=c", b"x;y", b"http://h/p?q=1", (_w(rng, 0, 5) + rng.choice("?/:@=;,!*") + _w(rng, 0, 5)).encode()])
                params.append([hx(k), hx(v)])
            path = "/" + _w(rng, 0, 30, _PATHCH.replace("%", ""))
            if path.startswith("//"):
                path = "/x" + path[2:]
            if rng.random() < 0.06:
                # request targets that are not an absolute path: the asterisk form, a relative reference
                path = rng.choice(["*", "*", _w(rng, 1, 10) + ".html", _w(rng, 1, 6) + ".php/" + _w(rng, 0, 4), _w(rng, 1, 12, _TOKEN + "./~")])
            method = _w(rng, 1, 8, _TOKEN.replace("_", "")).encode()
            if rng.random() < 0.06:
                # extension methods are opaque tokens: bytes >= 0x80 and control characters other than space / CR / LF belong to them
                method = rng.choice([b"M\xc3\x89THODE", b"\xff", b"GET\x1f", b"PRO\x1cPFIND", b"\xe4\xbd\xa0", b"A\x85B", b"X\xa0Y"])
            msgs.append({"type": "req", "method": hx(method), "path": hx(path.encode()),
                         "params": params, "headers": _headers(rng), "body": hx(_body(rng)), "plus": rng.random() < 0.5,
                         # reserved characters the sender leaves unencoded inside the query (legal per RFC 3986)
                         "raw_safe": hx(bytes(sorted(set(rng.sample(list(b"?/:@!$'()*,;="), rng.choice([0, 0, 1, 3, 13])))))),
                         "lower_hex": rng.choice([0, 0, 1, 2])})
        elif r < 0.8:
            msgs.append({"type": "resp", "status": rng.choice([100, 200, 204, 301, 404, 500, 599, rng.randint(100, 599)]),
                         "reason": hx(rng.choice([b"OK", b"Not-Found", _w(rng, 1, 10).encode(), bytes([rng.randint(0x21, 0x7E)]),
                                                  # single tokens that are not ASCII text
                                                  rng.choice([b"Pr\xe9condition", b"\xe4\xbd\xa0\xe5\xa5\xbd", b"\xff\xfe", b"a\x1fb", b"a\x1cb",
                                                              b"\x85", b"N\xa0F", b"\x80"])])),
                         "version": rng.choice(["HTTP/1.1", "HTTP/1.0", "http/1.1", "HTTP/2"]),
                         "headers": _headers(rng), "body": hx(_body(rng))})
        else:
            line = rng.choice([b"", b"GET", b"GET /x", b"GET /x HTTP/1.1 extra", b"A B C D E", b"HTTP/1.1", b"HTTP/1.1 200",
                               b"HTTP/1.1 200 OK extra", b"HTTP/1.1 abc OK", b"http/1.0 2x0 OK", b"HTTP/1.1 \xff OK", b" ",
                               b"HTTP/", b"/x HTTP/1.1", _w(rng, 1, 6).encode(), (_w(rng, 1, 4) + " " + _w(rng, 1, 4)).encode(),
                               # two parts only: the separators of str.split() that are not a space do not separate
                               b"GET\x1f/x HTTP/1.1", b"GET /x\x1cHTTP/1.1", b"HTTP/1.1\x1d200 OK", b"GET\x85/x HTTP/1.1",
                               b"GET\xa0/x HTTP/1.1"])
            msgs.append({"type": "malformed", "line": hx(line), "headers": _headers(rng), "body": hx(_body(rng))})
    return {"world": "S-http", "messages": msgs}


def execute(plan: dict) -> Result:
    if plan.get("world") != "S-http":
        r = _session.execute_session(plan, ID)
        r.probes["session_population"] += 1
        return r
    from dissect.cobaltstrike.c2 import HttpRequest, HttpResponse, parse_raw_http
    res = Result()
    res.cases = len(plan["messages"])
    earlier = []          # (wire, expected parts) of requests parsed earlier in this history
    for mi, m in enumerate(plan["messages"]):
        headers = [(unhx(k), unhx(v)) for k, v in m["headers"]]
        body = unhx(m["body"])
        if b"\r\n\r\n" in body:
            res.probes["body_with_crlfcrlf"] += 1
            res.nontrivial = True
        if b"\x00" in body:
            res.probes["body_with_nul"] += 1
        if len(body) > 10000:
            res.probes["body_large"] += 1
        if not body:
            res.probes["empty_body"] += 1
        if not headers:
            res.probes["no_headers"] += 1
        if len({k.lower() for k, _ in headers}) < len(headers):
            res.probes["header_names_differ_in_case_only"] += 1
        if any(b": " in v for _, v in headers):
            res.probes["header_value_colon_space"] += 1
        if any(any(c > 127 for c in v) for _, v in headers):
            res.probes["header_value_high_bytes"] += 1
        if m["type"] == "req":
            method, path = unhx(m["method"]), unhx(m["path"])
            params = [(unhx(k), unhx(v)) for k, v in m["params"]]
            raw_safe = unhx(m.get("raw_safe", ""))
            wire = rc.serialize_request(method, path, params, headers, body, plus_for_space=m["plus"], raw_safe=raw_safe,
                                        lower_hex=m.get("lower_hex", 0))
            if raw_safe and any(c in k + v for k, v in params for c in raw_safe):
                res.probes["param_reserved_char_unencoded"] += 1
            if params:
                res.nontrivial = True
            if any(any(c > 126 or c < 33 for c in k + v) for k, v in params):
                res.probes["param_binary"] += 1
            if m["plus"] and any(b" " in k + v for k, v in params):
                res.probes["param_plus_encoding"] += 1
            if len(params) > 5:
                res.probes["many_params"] += 1
            if len(params) > 64:
                res.probes["more_than_64_params"] += 1
            if not path.startswith(b"/"):
                res.probes["target_not_an_absolute_path"] += 1
            if b";" in path:
                res.probes["path_with_semicolon"] += 1
            try:
                p = parse_raw_http(wire)
            except Exception as e:
                res.violate(("C16", "request_rejected", type(e).__name__), f"parse_raw_http raised {e!r} on {wire[:200]!r}")
                continue
            res.log.log("req", mi, wire)
            if not isinstance(p, HttpRequest):
                res.violate(("C16", "request_parsed_as_response"), f"{wire[:100]!r} parsed as {type(p).__name__}")
                continue
            diffs = []
            if p.method != method:
                diffs.append("method")
            if p.uri != path:
                diffs.append("path" + (";" if b";" in path else ""))
            if dict(p.params) != dict(params):
                diffs.append("params")
            if dict(p.headers) != dict(headers):
                diffs.append("headers" + ("(empty)" if not headers else ""))
            if p.body != body:
                diffs.append("body")
            if not diffs:
                earlier.append((wire, method, path, dict(params), dict(headers), body))
                # the caller owns the parsed object: consumers such as HttpDataTransform.transform(request=parsed) add
                # parameters and headers to it in place. That must not influence any later parse.
                p.params[b"__added_by_consumer"] = b"1"
                p.headers[b"__added_by_consumer"] = b"1"
            if diffs:
                res.violate(("C16", "request_parts_differ", ",".join(diffs)),
                            f"parse_raw_http({wire[:300]!r}...) -> method={p.method!r} uri={p.uri!r} params={dict(p.params)!r:.200} "
                            f"headers={dict(p.headers)!r:.200} body[{len(p.body)}]; serialised parts: method={method!r} path={path!r} "
                            f"params={params!r:.200} headers={headers!r:.200} body[{len(body)}]")
        elif m["type"] == "resp":
            reason = unhx(m["reason"])
            wire = m["version"].encode() + b" " + str(m["status"]).encode() + b" " + reason + b"\r\n" + \
                b"".join(k + b": " + v + b"\r\n" for k, v in headers) + b"\r\n" + body
            if m["status"] in (100, 599):
                res.probes["status_edge"] += 1
            try:
                p = parse_raw_http(wire)
            except Exception as e:
                res.violate(("C16", "response_rejected", type(e).__name__), f"parse_raw_http raised {e!r} on {wire[:200]!r}")
                continue
            res.log.log("resp", mi, wire)
            diffs = []
            if not isinstance(p, HttpResponse):
                res.violate(("C16", "response_parsed_as_request"), f"{wire[:100]!r} parsed as {type(p).__name__}")
                continue
            if p.status != m["status"] or not isinstance(p.status, int):
                diffs.append("status")
            if p.reason != reason:
                diffs.append("reason")
            if dict(p.headers) != dict(headers):
                diffs.append("headers" + ("(empty)" if not headers else ""))
            if p.body != body:
                diffs.append("body")
            if diffs:
                res.violate(("C16", "response_parts_differ", ",".join(diffs)),
                            f"parse_raw_http({wire[:200]!r}...) -> status={p.status!r} reason={p.reason!r} headers={dict(p.headers)!r:.200} "
                            f"body[{len(p.body)}] vs status={m['status']} reason={reason!r} headers={headers!r:.200} body[{len(body)}]")
        else:
            line = unhx(m["line"])
            wire = line + b"\r\n" + b"".join(k + b": " + v + b"\r\n" for k, v in headers) + b"\r\n" + body
            res.nontrivial = True
            ntok = len(line.split())
            try:
                p = parse_raw_http(wire)
                res.log.log("malformed_accepted", mi, line)
                wellformed = ntok == 3 and (not line.upper().startswith(b"HTTP/") or line.split()[1].isdigit())
                if not wellformed:
                    res.violate(("C16", "malformed_accepted", f"tokens={ntok}", "http_prefix" if line.upper().startswith(b"HTTP/") else "plain"),
                                f"start line {line!r} was accepted as {type(p).__name__}")
            except ValueError:
                res.probes["malformed_rejected"] += 1
                res.log.log("malformed_rejected", mi, line)
            except Exception as e:
                res.violate(("C16", "malformed_wrong_exception", type(e).__name__), f"start line {line!r} raised {e!r} instead of ValueError")
    # ---- history: every request parsed earlier parses to the same parts again (no state shared between parses)
    for wire, method, path, params, headers, body in earlier:
        try:
            p = parse_raw_http(wire)
            same = p.method == method and p.uri == path and dict(p.params) == params and dict(p.headers) == headers and p.body == body
        except Exception:
            same = False
        res.probes["reparse_after_history"] += 1
        if not same:
            res.violate(("C16", "reparse_differs_after_history"),
                        f"re-parsing {wire[:200]!r} after other messages were parsed (and their parsed objects modified by their "
                        f"owner) gives different parts: params={dict(p.params)!r:.150} headers={dict(p.headers)!r:.200}")
            break
    return res


def candidates(plan: dict):
    if plan.get("world") != "S-http":
        yield from sessiongen.candidates(plan)
        return
    yield from core.shrink_list(plan, ["messages"], min_len=1)
    for i, m in enumerate(plan["messages"]):
        yield from core.shrink_list(plan, ["messages", i, "headers"])
        if "params" in m:
            yield from core.shrink_list(plan, ["messages", i, "params"])
            for j in range(len(m["params"])):
                yield from core.shrink_hex(plan, ["messages", i, "params", j, 0], min_len=1)
                yield from core.shrink_hex(plan, ["messages", i, "params", j, 1], min_len=1)
        yield from core.shrink_hex(plan, ["messages", i, "body"])
        if "path" in m:
            yield from core.shrink_hex(plan, ["messages", i, "path"], min_len=1)
