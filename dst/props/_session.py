"""Shared implementation of the World S property modules: each one biases the generator and reports its own
property's violations; all oracles run in every session."""
from __future__ import annotations

from dst import core
from dst.core import Result
from dst.session import sessiongen


def execute_session(plan: dict, prop_id: str) -> Result:
    from dst.session.world import World
    res = Result()
    w = World(plan, res)
    w.execute()
    res.extra["violations_other_properties"] = 0
    others = [v for v in res.violations if v.sig[0] != prop_id]
    res.extra["violations_other_properties"] += len(others)
    res.violations = [v for v in res.violations if v.sig[0] == prop_id]
    return res


def nontrivial_session(res: Result, w=None) -> None:
    pass
