"""C06 — beacon metadata survives RSA transport; session keys derive from it (World S).

Check-ins: the library RSA-encrypts metadata (PKCS#1 v1.5 padding from the seeded Crypto.Random seam), the
reference peer decrypts with PyCryptodome directly and parses with struct; and the other way round. Rogue and
corrupted blobs must be rejected with ValueError. 15% of the runs are full sessions (check-ins on the wire).
"""
from __future__ import annotations

import hashlib

from Crypto.PublicKey import RSA
import struct

from Crypto.Cipher import PKCS1_v1_5

from dst import core
from dst.core import Result, hx, unhx
from dst.props import _session
from dst.session import refcodec as rc
from dst.session import sessiongen
from dst.session.config import rsa_key
from dst.session.light import LightSeams

ID = "C06"
LEVEL = "exploration"
RUNS = {"quick": 1200, "thorough": 25000}
CHUNK = {"quick": 10, "thorough": 50}
PROBES = ["rsa1024", "rsa2048", "info_len_0", "info_len_at_limit", "info_len_over_limit", "field_at_max", "field_at_zero",
          "rogue_wrong_key", "rogue_random", "rogue_bitflip", "rogue_no_magic", "rogue_short_plaintext", "rogue_size_lie", "ref_to_lib", "metadata_object_reused",
          "c2http_checkin", "c2http_rogue_blob_shown_again", "client_identity", "client_random_bytes_start_with_zero",
          "session_population"]
RULE = ("seeded plans: 6-12 metadata items per plan with every field drawn from {0, 1, max, random} at its full integer "
        "width, info of length 0..limit (limit = k-11-59 for the key) with the limit, limit+1 and limit+40 biased, "
        "RSA-1024 and RSA-2048 fixture pairs, PKCS#1 padding bytes from the seeded stream; rogue blobs: encrypted under "
        "another key, random modulus-length bytes, single-bit flips, RSA-valid plaintexts without 0xBEEF or shorter "
        "than the magic, complete structures with a lying size field; one RSA-only C2Http shown check-ins with rogue (repeatedly) "
        "and genuine blobs under a generated http-get program; the library's client set up (dry run) for 3 ids, half of them ids "
        "whose 16 random bytes start with a zero byte. non-trivial = every exchange plan; sessions with >= 1 check-in; distinct = distinct digest")
ASSUMPTIONS = [
    "RSA-valid plaintexts that carry the 0xBEEF magic but are truncated or have an inconsistent size field are recorded, not judged (the property only names missing magic and non-decryptable blobs)",
    "trusted: PyCryptodome PKCS1_v1_5 / RSA, struct-based reference parser anchored to captured traffic",
]
REAL = ["c2.encrypt_metadata", "c2.decrypt_metadata", "c2.derive_aes_hmac_keys", "c2.BeaconKeys.from_aes_rand/from_beacon_metadata",
        "c_c2.BeaconMetadata"]
STUB = ["reference peer (PKCS1_v1_5 + struct)", "seeded Crypto.Random.get_random_bytes", "rogue sender"]

W = {"ansi_cp": 16, "oem_cp": 16, "bid": 32, "pid": 32, "port": 16, "flag": 8, "ver_major": 8, "ver_minor": 8, "ver_build": 16,
     "ptr_x64": 32, "ptr_gmh": 32, "ptr_gpa": 32, "ip": 32}


def _limit(rsa):
    return rsa_key(rsa).size_in_bytes() - 11 - rc.META_FIXED


def generate(rng, tier, index):
    if rng.random() < 0.15:
        return sessiongen.gen_session(rng, ID, tier)
    rsa = rng.choice(["rsa1024_a", "rsa1024_a", "rsa1024_b", "rsa2048_a", "rsa2048_b"])
    lim = _limit(rsa)
    items = []
    for _ in range(rng.randint(6, 12)):
        f = {k: rng.choice([0, 1, (1 << w) - 1, rng.getrandbits(w), rng.getrandbits(w)]) for k, w in W.items()}
        f["aes_rand"] = hx(bytes(rng.getrandbits(8) for _ in range(16)))
        if rng.random() < 0.2:
            # seeds that look like something else: text, hex digits, whitespace, all equal bytes
            f["aes_rand"] = hx(rng.choice([b"0123456789abcdef", b"A" * 16, b" " * 16, b"deadbeefcafebabe", b"0" * 16, bytes(16), b"\xff" * 16,
                                           b"1234567890123456", b"\t\n\r abcdef012345", bytes(rng.choice(b"0123456789abcdefABCDEF") for _ in range(16))]))
        f["aes_rand_as"] = rng.choice(["bytes", "bytes", "bytearray"])
        n = rng.choice([0, 1, 20, lim - 1, lim, lim, lim + 1, lim + 40, rng.randint(0, lim)])
        f["info"] = hx(bytes(rng.choice([9, 32, 65, 97, 0, 255, rng.getrandbits(8)]) for _ in range(n)))
        # history on one metadata object: re-encrypt after changing info; re-encrypt what decrypt_metadata returned
        f["reuse"] = [rng.choice(["grow", "shrink", "empty", "same", "redecrypted_grow", "redecrypted_shrink"])
                      for _ in range(rng.choice([0, 0, 1, 2, 3]))]
        items.append(f)
    other = {"rsa1024_a": "rsa1024_b", "rsa1024_b": "rsa1024_a", "rsa2048_a": "rsa2048_b", "rsa2048_b": "rsa2048_a"}[rsa]
    rogue = []
    for _ in range(rng.randint(4, 10)):
        k = rng.choice(["wrong_key", "random", "bitflip", "bitflip", "no_magic", "no_magic", "short", "wrong_length", "wrong_length", "size_lie"])
        r = {"kind": k, "seed": rng.getrandbits(30)}
        if k == "wrong_length":
            # a valid blob with bytes in front of / behind it, repeated, or cut: its length is not the modulus length
            r["how"] = rng.choice(["prefix00", "prefix01", "prefix_garbage", "suffix00", "suffix_garbage", "twice", "cut_head", "cut_tail", "empty"])
        if k == "bitflip":
            r["bit"] = rng.randint(0, rsa_key(rsa).size_in_bytes() * 8 - 1)
        if k == "no_magic":
            r["plain"] = hx(struct.pack(">I", rng.choice([0, 0xBEEE, 0xBEEF0000, 0xEFBE, 0x0001BEEF, 0xDEADBEEF, 0xFFFFBEEF,
                                                          0x8000BEEF, (rng.getrandbits(16) or 1) << 16 | 0xBEEF, rng.getrandbits(32)]))
                            + bytes(rng.getrandbits(8) for _ in range(rng.choice([0, 4, 55, 56, 80, rng.randint(0, lim + 55)]))))
            if rng.random() < 0.5:
                # an otherwise valid metadata structure whose magic alone is wrong (often only in its upper half)
                info = bytes(rng.getrandbits(8) for _ in range(rng.randint(0, 20)))
                valid = rc.pack_metadata({"aes_rand": bytes(16), "ansi_cp": 1252, "oem_cp": 437, "bid": 2 * rng.getrandbits(30),
                                          "pid": 4, "port": 0, "flag": 0, "ver_major": 6, "ver_minor": 1, "ver_build": 7601,
                                          "ptr_x64": 0, "ptr_gmh": 0, "ptr_gpa": 0, "ip": 1, "info": info})
                r["plain"] = r["plain"][:8] + hx(valid[4:])
            if unhx(r["plain"])[:4] == b"\x00\x00\xbe\xef":
                r["plain"] = "00000000" + r["plain"][8:]
        if k == "short":
            r["plain"] = hx(bytes(rng.getrandbits(8) for _ in range(rng.randint(0, 3))))
        if k == "size_lie":
            # a complete metadata structure whose size field announces more (or less) than is there; mostly without the magic
            info = bytes(rng.getrandbits(8) for _ in range(rng.choice([0, 1, 8, 20, rng.randint(0, lim)])))
            valid = rc.pack_metadata({"aes_rand": bytes(16), "ansi_cp": 1252, "oem_cp": 437, "bid": 2 * rng.getrandbits(30),
                                      "pid": 4, "port": 0, "flag": 0, "ver_major": 6, "ver_minor": 1, "ver_build": 7601,
                                      "ptr_x64": 0, "ptr_gmh": 0, "ptr_gpa": 0, "ip": 1, "info": info})
            actual = struct.unpack(">I", valid[4:8])[0]
            delta = rng.choice([1, 1, 2, 3, 7, 8, 16, 50, 57, 58, 59, 100, 185, 186, 187, 0x10000, -1, -actual, 0xFFFFFFFF - actual])
            magic = rng.choice([0xBEEE, 0xBEEF0000, 0xFFFFBEEF, 0x0001BEEF, rng.getrandbits(32) | 0x10000, 0, 0xBEEF])
            r["plain"] = hx(struct.pack(">II", magic, (actual + delta) & 0xFFFFFFFF) + valid[8:])
        rogue.append(r)
    # one traffic decoder that holds only the RSA key is shown check-ins carrying these blobs, rogue ones more than once
    from dst.session.config import gen_config
    c2cfg = gen_config(rng, rsa=rsa)
    return {"world": "S-metadata", "rsa": rsa, "other": other, "items": items, "rogue": rogue, "c2cfg": c2cfg,
            "c2order": [rng.getrandbits(16) for _ in range(rng.randint(4, 10))],
            # beacon ids for the library's own client (dry run): half of them ids whose deterministic 16 random bytes begin with
            # a zero byte (about one id in 256; found by search, see _zero_top_ids)
            "client_ids": [rng.choice(_zero_top_ids()) if rng.random() < 0.5 else 2 * rng.getrandbits(30) for _ in range(3)]}


_ZT = []


def _zero_top_ids():
    """Even beacon ids for which a generator seeded the way the client documents it (same id -> same keys: seeded with a value
    derived from the id) draws 128 bits that start with a zero byte. Only a bias for the inputs - no expectation depends on it."""
    if not _ZT:
        import random as _r
        g = _r.Random()
        bid = 2
        while len(_ZT) < 40 and bid < 400000:
            g.seed(bid ^ 0xACCE55ED)
            if g.getrandbits(128) >> 120 == 0:
                _ZT.append(bid)
            bid += 2
    return _ZT


def execute(plan: dict) -> Result:
    if plan.get("world") != "S-metadata":
        r = _session.execute_session(plan, ID)
        r.probes["session_population"] += 1
        return r
    from dissect.cobaltstrike.c2 import (BeaconKeys, BeaconMetadata, decrypt_metadata, derive_aes_hmac_keys,
                                         encrypt_metadata)
    res = Result()
    res.nontrivial = True
    priv = rsa_key(plan["rsa"])
    pub = priv.publickey()
    lim = _limit(plan["rsa"])
    res.probes["rsa1024" if priv.size_in_bytes() == 128 else "rsa2048"] += 1
    res.cases = 0
    with LightSeams(plan.get("run_seed", "0" * 16)):
        blobs = []
        for ii, f in enumerate(plan["items"]):
            res.cases += 1
            info = unhx(f["info"])
            fields = {k: f[k] for k in W}
            fields["aes_rand"] = unhx(f["aes_rand"])
            if any(fields[k] == (1 << w) - 1 for k, w in W.items()):
                res.probes["field_at_max"] += 1
            if any(fields[k] == 0 for k in W):
                res.probes["field_at_zero"] += 1
            m = BeaconMetadata()
            m.magic = 0xBEEF
            for k, v in fields.items():
                setattr(m, k, v)
            m.info = info
            n = len(info)
            res.probes["info_len_0" if n == 0 else "info_len_at_limit" if n == lim else "info_len_over_limit" if n > lim else "info_len_mid"] += 1
            try:
                blob = encrypt_metadata(m, pub)
            except ValueError as e:
                res.log.log("enc_valueerror", ii, n)
                if n <= lim:
                    res.violate(("C06", "encrypt_rejected_fitting_metadata", plan["rsa"][:7]),
                                f"encrypt_metadata raised {e} for info of {n} bytes (limit {lim})")
                continue
            except Exception as e:
                res.violate(("C06", "encrypt_raised", type(e).__name__), f"encrypt_metadata raised {e!r} (info {n} bytes)")
                continue
            if n > lim:
                res.violate(("C06", "encrypt_accepted_oversized_metadata"), f"encrypt_metadata accepted info of {n} bytes (limit {lim})")
                continue
            res.log.log("blob", ii, blob)
            blobs.append(blob)
            pt = rc.rsa_decrypt(blob, priv)
            if pt is None:
                res.violate(("C06", "peer_cannot_decrypt"), "library-encrypted metadata does not decrypt with the matching private key")
                continue
            got = rc.parse_metadata(pt)
            want = dict(fields, info=info, magic=0xBEEF)
            bad = [k for k in want if got.get(k) != want[k]]
            if bad:
                res.violate(("C06", "peer_fields_differ", ",".join(sorted(bad))),
                            f"peer parsed { {k: got.get(k) for k in bad} }, sender set { {k: want[k] for k in bad} }")
            if got["size"] != len(pt) - 8 or len(pt) != rc.META_FIXED + n:
                res.violate(("C06", "size_field_inconsistent"), f"size field {got['size']} for a {len(pt)}-byte plaintext with {n} info bytes")
            try:
                back = decrypt_metadata(blob, priv)
            except Exception as e:
                res.violate(("C06", "decrypt_raised_on_own_blob", type(e).__name__), f"decrypt_metadata raised {e!r} on the library's own blob")
                continue
            bad = [k for k in want if (bytes(getattr(back, k)) if isinstance(want[k], bytes) else int(getattr(back, k))) != want[k]]
            if bad or int(back.size) != len(pt) - 8:
                res.violate(("C06", "roundtrip_fields_differ", ",".join(sorted(bad)) or "size"),
                            f"decrypt_metadata(encrypt_metadata(m)) differs in {bad or ['size']}")
            # the same blob offered to the holder of ANOTHER private key (after it was decrypted with the right one)
            try:
                # freshly imported key objects that are dropped again (as a loop over candidate key files does)
                if ii % 4 == 0:
                    k_right = RSA.import_key(rsa_key(plan["rsa"]).export_key())
                    decrypt_metadata(blob, k_right)
                    del k_right
                    k_other = RSA.import_key(rsa_key(plan["other"]).export_key())
                else:
                    k_other = rsa_key(plan["other"])
                decrypt_metadata(blob, k_other)
                res.violate(("C06", "blob_accepted_by_other_private_key"),
                            "a blob that had just been decrypted with its own key was accepted by decrypt_metadata with another private key")
            except ValueError:
                res.probes["own_blob_then_other_key"] += 1
            except Exception as e:
                res.violate(("C06", "rogue_wrong_exception", "other_private_key", type(e).__name__),
                            f"decrypt_metadata with another private key raised {e!r} instead of ValueError")
            d = hashlib.sha256(fields["aes_rand"]).digest()
            seed_arg = bytearray(fields["aes_rand"]) if f.get("aes_rand_as") == "bytearray" else fields["aes_rand"]
            k1 = derive_aes_hmac_keys(seed_arg)
            k2 = BeaconKeys.from_aes_rand(seed_arg)
            k3 = BeaconKeys.from_beacon_metadata(back)
            if tuple(k1) != (d[:16], d[16:]) or (k2.aes_key, k2.hmac_key) != (d[:16], d[16:]) or (k3.aes_key, k3.hmac_key) != (d[:16], d[16:]):
                res.violate(("C06", "key_derivation"), "session keys are not the two halves of SHA-256(aes_rand)")
            # ---- history: the same object (or the decrypted one) is edited and encrypted again
            obj = m
            cur_info = info
            for step in f.get("reuse", []):
                res.probes["metadata_object_reused"] += 1
                if step.startswith("redecrypted"):
                    obj = back
                if step.endswith("grow"):
                    cur_info = (cur_info + b"+grown+")[:lim]
                elif step.endswith("shrink"):
                    cur_info = cur_info[:len(cur_info) // 2]
                elif step == "empty":
                    cur_info = b""
                obj.info = cur_info
                try:
                    blob2 = encrypt_metadata(obj, pub)
                    pt2 = rc.rsa_decrypt(blob2, priv)
                    got2 = rc.parse_metadata(pt2) if pt2 is not None else None
                    back2 = decrypt_metadata(blob2, priv)
                except Exception as e:
                    res.violate(("C06", "reuse_raised", type(e).__name__, step),
                                f"re-encrypting a metadata object after '{step}' (info now {len(cur_info)} bytes) raised {e!r}")
                    break
                if got2 is None or got2["info"] != cur_info or got2["size"] != len(pt2) - 8 or bytes(back2.info) != cur_info:
                    res.violate(("C06", "reuse_stale_size_or_info", step),
                                f"after '{step}' on a previously used metadata object the peer sees info of "
                                f"{len(got2['info']) if got2 else None} bytes / size {got2['size'] if got2 else None}, expected "
                                f"{len(cur_info)} bytes / size {rc.META_FIXED - 8 + len(cur_info)}")
                    break
                back = back2
            if f.get("reuse"):
                # the objects earlier decrypt_metadata calls returned were edited in between: the blob still says what it said
                try:
                    again = decrypt_metadata(blob, priv)
                    bad = [k for k in want if (bytes(getattr(again, k)) if isinstance(want[k], bytes) else int(getattr(again, k))) != want[k]]
                    if bad:
                        res.violate(("C06", "redecrypt_differs_after_edit_of_returned_object", ",".join(sorted(bad))),
                                    f"decrypting the same blob again after the object returned earlier was edited gives different {bad}")
                except Exception as e:
                    res.violate(("C06", "decrypt_raised_on_own_blob", type(e).__name__), f"second decrypt_metadata of the same blob raised {e!r}")
            # reference-encoded blob -> library
            if n <= lim:
                res.probes["ref_to_lib"] += 1
                rpt = rc.pack_metadata(dict(want, size=rc.META_FIXED - 8 + n))
                rblob = PKCS1_v1_5.new(pub).encrypt(rpt)
                try:
                    back2 = decrypt_metadata(rblob, priv)
                    bad = [k for k in want if (bytes(getattr(back2, k)) if isinstance(want[k], bytes) else int(getattr(back2, k))) != want[k]]
                    if bad:
                        res.violate(("C06", "ref_to_lib_fields_differ", ",".join(sorted(bad))), f"reference-encoded metadata decodes with different {bad}")
                except Exception as e:
                    res.violate(("C06", "ref_to_lib_raised", type(e).__name__), f"decrypt_metadata raised {e!r} on a reference-encoded blob")
        # ---------------- rogue blobs
        klen = priv.size_in_bytes()
        rogue_blobs = []
        for ri, r in enumerate(plan["rogue"]):
            res.cases += 1
            k = r["kind"]
            from dst.storage.builder import prng_bytes
            judged = True
            if k == "wrong_key":
                o = rsa_key(plan["other"]).publickey()
                blob = PKCS1_v1_5.new(o).encrypt(rc.pack_metadata({"aes_rand": bytes(16), "ansi_cp": 1, "oem_cp": 1, "bid": 2, "pid": 3,
                                                                  "port": 0, "flag": 0, "ver_major": 6, "ver_minor": 1, "ver_build": 7601,
                                                                  "ptr_x64": 0, "ptr_gmh": 0, "ptr_gpa": 0, "ip": 1, "info": b"x"}))
                res.probes["rogue_wrong_key"] += 1
            elif k == "random":
                blob = prng_bytes(r["seed"], klen)
                res.probes["rogue_random"] += 1
            elif k == "wrong_length":
                if not blobs:
                    continue
                good = blobs[r["seed"] % len(blobs)]
                g = prng_bytes(r["seed"], 7)
                blob = {"prefix00": b"\x00" + good, "prefix01": b"\x01" + good, "prefix_garbage": g + good, "suffix00": good + b"\x00",
                        "suffix_garbage": good + g, "twice": good + good, "cut_head": good[1:], "cut_tail": good[:-1], "empty": b""}[r["how"]]
                res.probes["rogue_wrong_length"] += 1
            elif k == "bitflip":
                if not blobs:
                    continue
                b = bytearray(blobs[r["seed"] % len(blobs)])
                b[r["bit"] >> 3] ^= 1 << (r["bit"] & 7)
                blob = bytes(b)
                res.probes["rogue_bitflip"] += 1
            else:
                blob = PKCS1_v1_5.new(pub).encrypt(unhx(r["plain"]))
                res.probes["rogue_no_magic" if k == "no_magic" else "rogue_size_lie" if k == "size_lie" else "rogue_short_plaintext"] += 1
            # what does the reference say about this blob?
            pt = rc.rsa_decrypt(blob, priv) if len(blob) == klen else None      # an RSA ciphertext has exactly the modulus length
            ref_ok = pt is not None and len(pt) >= 4 and pt[:4] == b"\x00\x00\xbe\xef"
            rogue_blobs.append((k, blob, ref_ok))
            try:
                m = decrypt_metadata(blob, priv)
                res.log.log("rogue", ri, k, "accepted")
                if not ref_ok:
                    res.violate(("C06", "rogue_accepted", k),
                                f"decrypt_metadata accepted a {k} blob (reference: {'no decrypt' if pt is None else pt[:8].hex()}) as bid={int(m.bid)}")
            except ValueError:
                res.log.log("rogue", ri, k, "ValueError")
            except Exception as e:
                res.log.log("rogue", ri, k, type(e).__name__)
                if not ref_ok:
                    res.violate(("C06", "rogue_wrong_exception", k, type(e).__name__),
                                f"decrypt_metadata raised {type(e).__name__} instead of ValueError on a {k} blob "
                                f"(RSA plaintext: {'none' if pt is None else str(len(pt)) + ' bytes ' + pt[:8].hex()})")
        if plan.get("c2cfg"):
            _c2http_stage(res, plan, priv, blobs, rogue_blobs)
            _client_stage(res, plan, priv)
    return res


def _client_stage(res, plan, priv):
    """The library's own beacon client, set up (dry run) for a few beacon ids: the session keys it works with are the two halves
    of SHA-256 over the 16 random bytes its check-in metadata carries - as seen by the peer after RSA transport."""
    from dissect.cobaltstrike.beacon import BeaconConfig
    from dissect.cobaltstrike.c2 import BeaconKeys, decrypt_metadata, encrypt_metadata
    from dissect.cobaltstrike.client import HttpBeaconClient
    from dst.session.config import config_block
    bc = BeaconConfig(config_block(plan["c2cfg"]))
    for bid in plan.get("client_ids", []):
        c = HttpBeaconClient()
        c.run(bc, dry_run=True, beacon_id=bid, user="u", computer="c", process="p.exe", internal_ip="10.0.0.1", arch="x64", pid=7)
        res.cases += 1
        res.probes["client_identity"] += 1
        pt = rc.rsa_decrypt(encrypt_metadata(c.metadata, priv.publickey()), priv)
        carried = rc.parse_metadata(pt)["aes_rand"]
        if carried[:1] == b"\x00":
            res.probes["client_random_bytes_start_with_zero"] += 1
        want = rc.derive_keys(carried)
        got = (bytes(c.aes_key), bytes(c.hmac_key))
        viaapi = BeaconKeys.from_beacon_metadata(decrypt_metadata(encrypt_metadata(c.metadata, priv.publickey()), priv))
        dec = (c.c2http.aes_key, c.c2http.hmac_key)
        res.log.log("client", bid, carried, got[0])
        if got != want or (bytes(viaapi.aes_key), bytes(viaapi.hmac_key)) != want or (bytes(dec[0]), bytes(dec[1])) != want:
            res.violate(("C06", "client_keys_not_derived_from_carried_random_bytes", "zero_lead" if carried[:1] == b"\x00" else "other"),
                        f"beacon client for id {bid}: its check-in metadata carries the random bytes {carried.hex()} (keys "
                        f"{want[0].hex()}/{want[1].hex()}), the client works with {got[0].hex()}/{got[1].hex()}, its decoder with "
                        f"{bytes(dec[0]).hex()}/{bytes(dec[1]).hex()}")
            return


def _c2http_stage(res, plan, priv, blobs, rogue_blobs):
    """ONE C2Http that holds only the RSA private key is shown check-in requests (metadata placed by the reference encoder under
    the configuration's http-get program) in a seeded order, every blob possibly several times: a blob that does not decrypt or
    lacks the magic is rejected with ValueError every time it is shown, a genuine one yields its metadata every time."""
    from dissect.cobaltstrike.beacon import BeaconConfig
    from dissect.cobaltstrike.c2 import C2Http, HttpRequest
    from dissect.cobaltstrike.c_c2 import BeaconMetadata
    from dst.session.config import config_block
    cfg = plan["c2cfg"]
    dec = C2Http(BeaconConfig(config_block(cfg)), rsa_private_key=priv)
    pool = [("genuine", b, True) for b in blobs[:3]] + [x for x in rogue_blobs if not x[2]][:5]
    if not pool:
        return
    steps = cfg["get"]
    nm = sum(1 for s_ in steps if s_[0] == "mask")
    seen = {}
    for oi, o in enumerate(plan["c2order"]):
        kind, blob, ok = pool[o % len(pool)]
        if not blob and kind != "genuine":
            continue            # (an empty metadata value is no check-in at all)
        mks = [core.draw(plan.get("run_seed", "0" * 16), "c2mk", oi, j).to_bytes(8, "big")[-4:] for j in range(nm)]
        method, uri, params, headers, body = rc.ref_encode_request(steps, {"metadata": blob}, cfg["verb_get"].encode(),
                                                                   cfg["domains"][0][1].encode(), [], mks, False)
        req = HttpRequest(method=method, uri=uri, params=dict(params), headers=dict(headers), body=body)
        nth = seen[o % len(pool)] = seen.get(o % len(pool), 0) + 1
        try:
            out = list(dec.iter_recover_http(req))
            outcome = "yielded"
        except ValueError:
            out, outcome = [], "ValueError"
        except Exception as e:  # noqa: BLE001
            out, outcome = [], type(e).__name__
        res.cases += 1
        res.log.log("c2http", oi, kind, nth, outcome, len(out))
        res.probes["c2http_rogue_blob_shown_again" if (nth > 1 and not ok) else "c2http_checkin"] += 1
        if not ok and outcome != "ValueError":
            res.violate(("C06", "c2http_rogue_blob_not_rejected", kind, "first" if nth == 1 else "again", outcome),
                        f"a traffic decoder (RSA key only) shown a check-in with a {kind} metadata blob for the {nth}. time "
                        f"{'yielded ' + repr(out)[:120] if outcome == 'yielded' else 'raised ' + outcome} instead of raising ValueError "
                        f"(order {plan['c2order']}, http-get program {steps})")
            return
        if ok:
            md = [x for x in out if isinstance(x, BeaconMetadata)]
            want = rc.parse_metadata(rc.rsa_decrypt(blob, priv))
            if outcome != "yielded" or len(md) != 1 or int(md[0].bid) != want["bid"] or bytes(md[0].aes_rand) != want["aes_rand"]:
                res.violate(("C06", "c2http_genuine_checkin_not_decoded", "first" if nth == 1 else "again", outcome),
                            f"a traffic decoder (RSA key only) shown a genuine check-in for the {nth}. time: {outcome}, {out!r:.200} "
                            f"(order {plan['c2order']}, http-get program {steps})")
                return


def candidates(plan: dict):
    if plan.get("world") != "S-metadata":
        yield from sessiongen.candidates(plan)
        return
    yield from core.shrink_list(plan, ["items"])
    yield from core.shrink_list(plan, ["rogue"])
    for i in range(len(plan["items"])):
        yield from core.shrink_hex(plan, ["items", i, "info"])
        for k in W:
            yield from core.shrink_int(plan, ["items", i, k])
    for i, r in enumerate(plan["rogue"]):
        if "plain" in r:
            yield from core.shrink_hex(plan, ["rogue", i, "plain"])
