"""C11 — the dictionary view reports exactly what the profile says (World H: single-object histories).

Histories of builder modifications interleaved with dictionary/text reads on one long-lived C2Profile, against a
path -> values model that is computed from the plan alone; builder == parser; two equivalent builder call styles.
There is no clock/network/storage here: the nondeterminism is the order of operations a caller performs.
"""
from __future__ import annotations

from dst import core
from dst.core import Result, hx, unhx

ID = "C11"
LEVEL = "exploration"
RUNS = {"quick": 1500, "thorough": 30000}
CHUNK = {"quick": 20, "thorough": 100}
PROBES = ["read_after_modification", "stale_cache_opportunity", "nested_modification_via_tree", "variant_block", "default_variant",
          "data_transform_list", "execute_list", "beacon_gate_list", "repeated_option", "repeated_block", "kwargs_style",
          "calls_style", "reparse", "empty_block", "pair_statement", "same_text_parsed_twice", "escape_at_edge_of_literal",
          "option_value_as_bytes", "caller_touches_returned_dict", "nested_modification_two_levels_down",
          "topdown_style", "constructor_keywords"]
RULE = ("seeded histories (2-24 ops) on one C2Profile: 'add' ops append a global option or a fully built block (all 11 "
        "block kinds, options by alias/keyword table, header/parameter/strrep pairs, data-transform lists in the six "
        "non-variant list paths, execute and BeaconGate lists, process-inject transform-x86) built either through kwargs "
        "constructors or through incremental calls, 'read' ops call "
        "as_dict()/properties/as_text()/str() or re-parse the text; after every read the dictionary must equal the model, "
        "from_text(as_text()) must have an equal tree, text and dictionary, and both builder styles must give equal trees; "
        "25% of plans are parsed from independently printed text incl. variants and escape sequences at the edges of literals. non-trivial = a read follows a "
        "modification that follows a read (cache invalidation exercised) or a list/variant path is present; distinct = digest")
ASSUMPTIONS = [
    "option values and pair strings handed to the BUILDER avoid double quote and backslash (string escaping is C12, not claimed); in the parsed population they are source text with escape sequences, expected back as written; transform/execute arguments are arbitrary bytes (all 256 values)",
    "data-transform lists only in non-variant blocks; stage.transform-x86/x64 and process-inject.transform-x64 are not generated (their listing is not pinned by the property)",
    "module_x64 (grammar alias clash, a C10 matter) and the '#'-prefixed dns_resolver pseudo option are not generated",
    "values are compared as plain strings (lark Tokens are str)",
]
REAL = ["c2profile.C2Profile (set_option, set_config_block, as_dict, properties, as_text, from_text)", "c2profile.ConfigBlock subclasses",
        "c2profile.DataTransformBlock", "c2profile.value_to_string / string_token_to_bytes", "lark parser + Reconstructor"]
STUB = ["path -> values model", "independent profile text printer"]

GLOBAL_OPTS = ["sample_name", "data_jitter", "dns_idle", "dns_max_txt", "dns_sleep", "dns_stager_prepend", "dns_stager_subhost",
               "dns_ttl", "host_stage", "jitter", "maxdns", "pipename", "pipename_stager", "sleeptime", "smb_frame_header",
               "ssh_banner", "ssh_pipename", "tcp_frame_header", "tcp_port", "useragent", "spawnto", "spawnto_x86", "spawnto_x64",
               "amsi_disable", "create_remote_thread", "hijack_remote_thread", "tasks_max_size", "tasks_proxy_max_size",
               "tasks_dns_proxy_max_size"]
# block alias -> (keyword, class name, [(option alias, keyword)], statement-style options [(alias, keyword)])
BLOCKS = {
    "http_get": ("http-get", "HttpGetBlock", [("uri", "uri"), ("verb", "verb")], []),
    "http_post": ("http-post", "HttpPostBlock", [("uri", "uri"), ("verb", "verb")], []),
    "http_stager": ("http-stager", "HttpStagerBlock", [("uri_x86", "uri_x86"), ("uri_x64", "uri_x64")], []),
    "stage": ("stage", "StageBlock", [(a, a) for a in ("allocator", "cleanup", "magic_pe", "magic_mz_x86", "magic_mz_x64", "obfuscate",
                                                        "sleep_mask", "smartinject", "stomppe", "userwx", "compile_time", "entry_point",
                                                        "module_x86", "image_size_x86", "image_size_x64", "name", "rich_header",
                                                        "checksum", "syscall_method", "data_store_size")],
              [("string", "string"), ("stringw", "stringw")]),
    "process_inject": ("process-inject", "ProcessInjectBlock", [(a, a) for a in ("allocator", "min_alloc", "startrwx", "userwx",
                                                                                 "bof_allocator", "bof_reuse_memory")],
                       [("disable", "disable")]),
    "post_ex": ("post-ex", "PostExBlock", [(a, a) for a in ("spawnto_x86", "spawnto_x64", "obfuscate", "pipename", "smartinject",
                                                            "amsi_disable", "keylogger", "thread_hint")], []),
    "dns_beacon": ("dns-beacon", "DnsBeaconBlock", [(a, a) for a in ("dns_idle", "dns_max_txt", "dns_sleep", "dns_ttl", "maxdns",
                                                                     "dns_stager_prepend", "dns_stager_subhost", "beacon",
                                                                     "put_metadata", "put_output", "ns_response")]
                   + [("get_a", "get_A"), ("get_aaaa", "get_AAAA"), ("get_txt", "get_TXT")], []),
    "http_beacon": ("http-beacon", "HttpBeaconBlock", [(a, a) for a in ("library", "data_required", "data_required_length")], []),
    "http_config": ("http-config", "HttpConfigBlock", [(a, a) for a in ("headers", "trust_x_forwarded_for", "block_useragents",
                                                                        "allow_useragents")], []),
    "https_certificate": ("https-certificate", "ConfigBlock", [("country", "C"), ("common_name", "CN"), ("locality", "L"),
                                                                ("org_unit", "OU"), ("org", "O"), ("state", "ST"),
                                                                ("validity", "validity"), ("keystore", "keystore"),
                                                                ("password", "password")], []),
    "code_signer": ("code-signer", "ConfigBlock", [(a, a) for a in ("keystore", "password", "alias", "digest_algorithm", "timestamp",
                                                                    "timestamp_url")], []),
}
VARIANT_OK = ("http_get", "http_post", "http_stager", "https_certificate")
EXEC = [("createthread_special", "CreateThread", True), ("createremotethread_special", "CreateRemoteThread", True),
        ("createthread", "CreateThread", False), ("createremotethread", "CreateRemoteThread", False),
        ("ntqueueapcthread", "NtQueueApcThread", False), ("ntqueueapcthread_s", "NtQueueApcThread-s", False),
        ("rtlcreateuserthread", "RtlCreateUserThread", False), ("setthreadcontext", "SetThreadContext", False)]
GATE = ["None", "Comms", "Core", "Cleanup", "All", "InternetOpenA", "InternetConnectA", "VirtualAlloc", "VirtualAllocEx",
        "VirtualProtect", "VirtualProtectEx", "VirtualFree", "GetThreadContext", "SetThreadContext", "ResumeThread", "CreateThread",
        "CreateRemoteThread", "OpenProcess", "OpenThread", "CloseHandle", "CreateFileMappingA", "MapViewOfFile", "UnmapViewOfFile",
        "VirtualQuery", "DuplicateHandle", "ReadProcessMemory", "WriteProcessMemory", "ExitThread"]
GATE_ALIAS = {g: ("virtualprotextex" if g == "VirtualProtectEx" else g.lower()) for g in GATE}
WIDE = True   # transform/execute arguments range over all 256 byte values (quotes and backslash included)
_VAL = "abcdefghijklmnopqrstuvwxyzABCDEFGHIJKLMNOPQRSTUVWXYZ0123456789 ,.;:/!@#$%^&*()_+-={}[]|<>?~`"


# ------------------------------------------------------------------------------------------- generation

_WORDS = ["default", "default", "set", "client", "server", "header", "parameter", "output", "print", "true", "metadata", "id"]


def _val(rng, lo=0, hi=16):
    if rng.random() < 0.08:
        return rng.choice(_WORDS)     # values that read like keywords / variant names of the language
    return "".join(rng.choice(_VAL) for _ in range(rng.randint(lo, hi)))


def _arg(rng):
    if rng.random() < 0.06:
        return hx(rng.choice(_WORDS).encode())
    n = rng.choice([0, 1, 3, 8, 20])
    out = bytearray()
    while len(out) < n:
        b = rng.choice([rng.getrandbits(8), rng.randint(0x20, 0x7E), 0, 10, 13, 9, 0xFF] + ([0x22, 0x27, 0x5C, 0x5C] if WIDE else []))
        if b in (0x22, 0x27, 0x5C) and not WIDE:
            continue
        out.append(b)
    return hx(bytes(out))


def _gen_dt(rng, name):
    steps = []
    for _ in range(rng.choice([0, 1, 2, 3, 5])):
        s = rng.choice(["base64", "base64url", "mask", "netbios", "netbiosu", "prepend", "append"])
        steps.append([s, _arg(rng)] if s in ("prepend", "append") else [s])
    t = rng.choice(["print", "uri-append", "header", "parameter"])
    term = [t, _arg(rng)] if t in ("header", "parameter") else [t]
    return ["dt", name, steps, term]


def _gen_pairs(rng, kinds=("header", "parameter")):
    out = []
    for _ in range(rng.choice([0, 1, 2, 3, 4])):
        k = _val(rng, 1, 10)
        if out and rng.random() < 0.3:
            k = rng.choice(out)[2]          # the same name again (a header sent twice, with the same or another value)
        out.append(["pair", rng.choice(kinds), k, rng.choice(out)[3] if out and rng.random() < 0.15 else _val(rng, 0, 12)])
    return out


def _gen_block(rng, alias=None):
    alias = alias or rng.choice(sorted(BLOCKS))
    kw, cls, opts, stmts = BLOCKS[alias]
    items = []
    # a 4th element "b" = the builder is handed the value as bytes instead of str (same text for this alphabet)
    for _ in range(rng.choice([0, 1, 2, 3, 5])):
        a, _k = rng.choice(opts)
        items.append(["set", a, _val(rng)] + (["b"] if rng.random() < 0.25 else []))
    for _ in range(rng.choice([0, 0, 1, 2]) if stmts else 0):
        a, _k = rng.choice(stmts)
        items.append(["set", a, _val(rng)] + (["b"] if rng.random() < 0.5 else []))
    if alias in ("http_get", "http_post"):
        if rng.random() < 0.8:
            inner = _gen_pairs(rng)
            names = ["metadata"] if alias == "http_get" else ["id", "output"]
            for n in names:
                if rng.random() < 0.8:
                    inner.append(_gen_dt(rng, n))
            rng.shuffle(inner)
            items.append(["block", "client", inner])
        if rng.random() < 0.6:
            inner = _gen_pairs(rng)
            if rng.random() < 0.8:
                inner.append(_gen_dt(rng, "output"))
            items.append(["block", "server", inner])
    elif alias == "http_stager":
        if rng.random() < 0.5:
            items.append(["block", "client", _gen_pairs(rng)])
        if rng.random() < 0.6:
            inner = _gen_pairs(rng)
            if rng.random() < 0.7:
                inner.append(_gen_dt(rng, "output"))
            items.append(["block", "server", inner])
    elif alias == "stage":
        if rng.random() < 0.5:
            items.append(["gate", [rng.choice(GATE) for _ in range(rng.randint(0, 5))]])
    elif alias == "process_inject":
        if rng.random() < 0.5:
            ex = []
            for _ in range(rng.randint(0, 4)):
                a, k, hasarg = rng.choice(EXEC)
                ex.append([k, _arg(rng) if hasarg else None])
            items.append(["exec", ex])
        if rng.random() < 0.4:
            items.append(["xform86", [[rng.choice(["prepend", "append"]), _arg(rng)] for _ in range(rng.randint(0, 3))]])
    elif alias == "http_config":
        items += [["pair", "header", _val(rng, 1, 10), _val(rng, 0, 12)] for _ in range(rng.choice([0, 1, 2]))]
    rng.shuffle(items)
    return ["block", alias, items]


def generate(rng, tier, index):
    ops = []
    n = rng.choice([2, 3, 4, 6, 8, 12, 16, 24])
    attached = 0
    for _ in range(n):
        r = rng.random()
        if r < 0.45:
            if rng.random() < 0.4:
                ops.append(["add", ["opt", rng.choice(GLOBAL_OPTS), _val(rng)]])
            else:
                ops.append(["add", _gen_block(rng)])
                attached += 1
        elif r < 0.55 and attached:
            if rng.random() < 0.6:
                ops.append(["nested", rng.randrange(attached), _val(rng)])
                continue
            # re-attach an already used block kind (repeated blocks) instead of mutating an attached block object:
            # whether a change made through a block object *after* attaching it reaches the profile depends on lark
            # internals (the Reconstructor re-creates child lists on the first read), and the property only speaks of
            # modifications of the profile
            ops.append(["add", _gen_block(rng)])
            attached += 1
        else:
            ops.append(["read", rng.choice(["as_dict", "as_dict", "properties", "as_text", "str", "reparse"])])
    ops.append(["read", "as_dict"])
    plan = {"world": "H", "ops": ops, "style": rng.choice(["kwargs", "calls", "topdown"])}
    if rng.random() < 0.25:
        # parsed-from-text population with variants
        items = []
        for _ in range(rng.randint(1, 5)):
            if rng.random() < 0.3:
                items.append(["opt", rng.choice(GLOBAL_OPTS), _val(rng)])
            else:
                b = _gen_block(rng)
                if b[1] in VARIANT_OK and rng.random() < 0.6:
                    b = ["block", b[1], [it for it in _strip_dt(b[2])], rng.choice(["default", _val(rng, 1, 6).replace(" ", "_") or "v"])]
                items.append(b)
        if rng.random() < 0.6:
            items = [_escapeify(rng, it) for it in items]
        plan = {"world": "H", "parsed": items, "esc_style": rng.choice([0, rng.randint(1, 10 ** 6), rng.randint(1, 10 ** 6)])}
    return plan


_ESC = ['\\"', '\\\\', "\\'", "\\x41", "\\n", "\\t", "\\u0041"]
# raw text that looks like profile syntax - it sits INSIDE a string literal, where it means nothing
_RAW = ["\n", " {\n\n  ", ";\n", "}\n", " # not a comment", "{\n\n\n", "\t", "set x "]


def _escapeify(rng, it):
    """Parsed population only: option values and pair strings as SOURCE text with escape sequences (in particular at the
    very start and end of the literal). The dictionary reports such strings as written, so the expectation is the
    same source text; no escaping codec (C12) is involved on either side."""
    def e(v):
        r = rng.random()
        if r < 0.35:
            return v
        if r < 0.55:
            return rng.choice(_ESC) + v
        if r < 0.75:
            return v + rng.choice(_ESC)
        if r < 0.9:
            return rng.choice(_ESC) + v + rng.choice(_ESC)
        k = rng.randint(0, len(v))
        return v[:k] + rng.choice(_ESC + _RAW + _RAW) + v[k:]
    if it[0] == "opt":
        return ["opt", it[1], e(it[2])]
    if it[0] == "set":
        return ["set", it[1], e(it[2])] + it[3:]
    if it[0] == "pair":
        return ["pair", it[1], e(it[2]), e(it[3])]
    if it[0] == "block":
        return ["block", it[1], [_escapeify(rng, x) for x in it[2]]] + it[3:]
    return it


def _strip_dt(items):
    out = []
    for it in items:
        if it[0] == "dt":
            continue
        if it[0] == "block":
            out.append(["block", it[1], _strip_dt(it[2])])
        else:
            out.append(it)
    return out


# ------------------------------------------------------------------------------------------- model

def _kw_opt(block_alias, alias):
    _, _, opts, stmts = BLOCKS[block_alias]
    for a, k in opts + stmts:
        if a == alias:
            return k
    return alias


def model_dict(items):
    """Expected as_dict() for a list of top-level model items."""
    d = {}

    def add(key, value):
        d.setdefault(key, []).append(value)

    def dt_values(steps, term):
        vals = []
        for s in steps:
            vals.append((s[0], unhx(s[1])) if len(s) > 1 else s[0])
        vals.append((term[0], unhx(term[1])) if len(term) > 1 else term[0])
        return vals

    def walk(path, balias, its):
        for it in its:
            k = it[0]
            if k == "set":
                add(".".join(path + [_kw_opt(balias, it[1])]), it[2])
            elif k == "pair":
                add(".".join(path + [it[1]]), (it[2], it[3]))
            elif k == "block":
                walk(path + [it[1]], balias, it[2])
            elif k == "dt":
                for v in dt_values(it[2], it[3]):
                    add(".".join(path + [it[1]]), v)
            elif k == "exec":
                for name, a in it[1]:
                    add(".".join(path + ["execute"]), (name, unhx(a)) if a is not None else name)
            elif k == "gate":
                for g in it[1]:
                    add(".".join(path + ["beacon_gate"]), g)
            elif k == "xform86":
                for name, a in it[1]:
                    add(".".join(path + ["transform-x86"]), (name, unhx(a)))

    for it in items:
        if it[0] == "opt":
            add(it[1], it[2])
        else:
            kw = BLOCKS[it[1]][0]
            path = [kw]
            if len(it) > 3 and it[3] != "default":
                path.append('"' + it[3] + '"')
            walk(path, it[1], it[2])
    return d


_ALT = {0x0A: "\\n", 0x0D: "\\r", 0x09: "\\t", 0x5C: "\\\\", 0x22: '\\"', 0x27: "\\'"}


def esc(b: bytes, style: int = 0) -> str:
    """Byte string -> profile string literal. style 0: \\xHH for everything that is not plain printable; other styles pick,
    per byte, one of the equivalent spellings the profile language documents (\\n \\r \\t \\\\ \\" \\' \\u00HH, upper-case
    hex, \\xHH for printable characters too)."""
    out = []
    for i, c in enumerate(b):
        h = (style * 131 + i * 7 + c) % 7 if style else 0
        if style and c in _ALT and h < 4:
            out.append(_ALT[c])
        elif style and h == 4:
            out.append("\\u00%02x" % c)
        elif style and h == 5:
            out.append("\\x%02X" % c)
        elif 0x20 <= c <= 0x7E and c not in (0x22, 0x5C) and not (style and h == 6):
            out.append(chr(c))
        else:
            out.append("\\x%02x" % c)
    return '"' + "".join(out) + '"'


def print_text(items, style: int = 0) -> str:
    """Independent profile printer (for the parsed population and the semantic reparse check)."""
    out = []

    def esc_(b):     # all byte arguments of this text use the plan's escape style
        return esc(b, style)

    def q(s):
        return '"' + s + '"'

    def walk(balias, its, ind):
        pad = "  " * ind
        for it in its:
            k = it[0]
            if k == "set":
                kw = _kw_opt(balias, it[1])
                stmt = kw in [s[1] for s in BLOCKS[balias][3]]
                out.append(f"{pad}{'' if stmt else 'set '}{kw} {q(it[2])};")
            elif k == "pair":
                out.append(f"{pad}{it[1]} {q(it[2])} {q(it[3])};")
            elif k == "block":
                out.append(f"{pad}{it[1]} {{")
                walk(balias, it[2], ind + 1)
                out.append(f"{pad}}}")
            elif k == "dt":
                out.append(f"{pad}{it[1]} {{")
                for s in it[2] + [it[3]]:
                    out.append(f"{pad}  {s[0]}{(' ' + esc_(unhx(s[1]))) if len(s) > 1 else ''};")
                out.append(f"{pad}}}")
            elif k == "exec":
                out.append(f"{pad}execute {{")
                for name, a in it[1]:
                    out.append(f"{pad}  {name}{(' ' + esc_(unhx(a))) if a is not None else ''};")
                out.append(f"{pad}}}")
            elif k == "gate":
                out.append(f"{pad}beacon_gate {{")
                for g in it[1]:
                    out.append(f"{pad}  {g};")
                out.append(f"{pad}}}")
            elif k == "xform86":
                out.append(f"{pad}transform-x86 {{")
                for name, a in it[1]:
                    out.append(f"{pad}  {name} {esc_(unhx(a))};")
                out.append(f"{pad}}}")

    for it in items:
        if it[0] == "opt":
            out.append(f"set {it[1]} {q(it[2])};")
        else:
            kw = BLOCKS[it[1]][0]
            var = f' "{it[3]}"' if len(it) > 3 else ""
            out.append(f"# comment\n{kw}{var} {{")
            walk(it[1], it[2], 1)
            out.append("}")
    return "\n".join(out) + "\n"


# ------------------------------------------------------------------------------------------- builder drivers

def _dt_block(cp, steps, term):
    sl = []
    for s in steps + [term]:
        sl.append((s[0], unhx(s[1])) if len(s) > 1 else s[0])
    return cp.DataTransformBlock(steps=sl)


def build_block(cp, alias, items, style, attach=None):
    """style "kwargs": constructor keywords where they can express the block; "calls": an empty block filled by calls and
    attached when complete; "topdown": every block is attached to its parent FIRST (the outermost one via `attach`) and
    filled afterwards - all three are equivalent builder call sequences."""
    kwname, cls, _, _ = BLOCKS[alias]
    klass = getattr(cp, cls)

    def make(klass, its, style, balias, attach_to=None):
        if style == "kwargs" and _kwargs_ok(its):
            kwargs = {}
            for it in its:
                k = it[0]
                if k == "set":
                    kwargs[it[1]] = it[2].encode() if len(it) > 3 else it[2]
                elif k == "block":
                    kwargs[it[1]] = make(cp.HttpOptionsBlock, it[2], style, balias)
                elif k == "dt":
                    kwargs[it[1]] = _dt_block(cp, it[2], it[3])
            return klass(**kwargs)
        b = klass()
        if style == "topdown" and attach_to is not None:
            attach_to(b)
        grouped = []
        for it in its:
            # consecutive pairs of one kind may be handed over in ONE call (a list of pairs) - every second such group is
            if it[0] == "pair" and grouped and grouped[-1][0] == "pairs" and grouped[-1][1] == it[1]:
                grouped[-1][2].append((it[2], it[3]))
            elif it[0] == "pair" and callable(getattr(b, it[1], None)) and (len(it[2]) + len(its)) % 2 == 0:
                grouped.append(["pairs", it[1], [(it[2], it[3])]])
            else:
                grouped.append(it)
        for it in grouped:
            k = it[0]
            if k == "set":
                b.set_option(it[1], it[2].encode() if len(it) > 3 else it[2])
            elif k == "pairs":
                getattr(b, it[1])(it[1], list(it[2]))
            elif k == "pair":
                # the public spelling where the block class has one (HttpOptionsBlock.header/.parameter,
                # HttpConfigBlock.header, ...strrep), the generic pair builder otherwise
                fn = getattr(b, it[1], None)
                if callable(fn) and (len(it[2]) + len(it[3])) % 2 == 0:
                    fn(it[1], [(it[2], it[3])])
                else:
                    b._pair(it[1], [(it[2], it[3])])
            elif k == "block":
                if style == "topdown":
                    make(cp.HttpOptionsBlock, it[2], style, balias, attach_to=lambda child, n_=it[1], b_=b: b_.set_config_block(n_, child))
                else:
                    b.set_config_block(it[1], make(cp.HttpOptionsBlock, it[2], style, balias))
            elif k == "dt":
                b.set_config_block(it[1], _dt_block(cp, it[2], it[3]))
            elif k == "exec":
                eb = cp.ExecuteOptionsBlock()
                for name, a in it[1]:
                    al = next(x[0] for x in EXEC if x[1] == name and x[2] == (a is not None))
                    if a is not None:
                        eb.set_option(al, unhx(a))
                    else:
                        eb._enable(al, True)
                b.set_config_block("execute", eb)
            elif k == "gate":
                gb = cp.BeaconGateBlock()
                for g in it[1]:
                    gb._enable(GATE_ALIAS[g], True)
                b.set_config_block("beacon_gate", gb)
            elif k == "xform86":
                if style == "kwargs" and len({n_ for n_, _ in it[1]}) == len(it[1]):
                    # (keyword order = statement order)
                    tb = cp.StageTransformBlock(**{n_: unhx(a_) for n_, a_ in it[1]})
                else:
                    tb = cp.StageTransformBlock()
                    for name, a in it[1]:
                        tb.set_option(name, unhx(a))
                b.set_config_block("transform_x86", tb)
        return b

    return make(klass, items, style, alias, attach_to=attach)


def _kwargs_ok(its):
    """kwargs construction can only express distinct option names and no pairs/lists."""
    names = [it[1] for it in its if it[0] in ("set", "block", "dt")]
    if len(names) != len(set(names)):
        return False
    if any(n in ("header", "parameter", "strrep", "tree", "steps", "termination") for n in names):
        return False
    return all(it[0] in ("set", "block", "dt") and (it[0] != "block" or _kwargs_ok(it[2])) for it in its)


def _plain(d):
    """Normalise an as_dict() result: Tokens -> str."""
    out = {}
    for k, vs in d.items():
        lst = []
        for v in vs:
            if isinstance(v, tuple):
                lst.append(tuple(x if isinstance(x, bytes) else str(x) for x in v))
            elif isinstance(v, bytes):
                lst.append(v)
            else:
                lst.append(str(v))
        out[str(k)] = lst
    return out


def _diff(got, want):
    keys = sorted(set(got) | set(want))
    for k in keys:
        if got.get(k) != want.get(k):
            return f"key {k!r}: got {got.get(k)!r:.300} want {want.get(k)!r:.300}"
    return "?"


def _diff_kind(got, want):
    for k in sorted(set(got) | set(want)):
        if got.get(k) != want.get(k):
            if k not in got:
                return "missing_key"
            if k not in want:
                return "extra_key"
            if len(got[k]) != len(want[k]):
                return "value_count"
            if sorted(map(repr, got[k])) == sorted(map(repr, want[k])):
                return "order"
            return "value"
    return "?"


def execute(plan: dict) -> Result:
    from dissect.cobaltstrike import c2profile as cp
    res = Result()
    if "parsed" in plan:
        items = plan["parsed"]
        text = print_text(items, plan.get("esc_style", 0))
        want = model_dict(items)
        if any(len(it) > 3 for it in items):
            res.probes["variant_block"] += 1
            res.nontrivial = True
        if any(len(it) > 3 and it[3] == "default" for it in items):
            res.probes["default_variant"] += 1
        if '\\' in text:
            res.probes["escape_at_edge_of_literal"] += 1
        try:
            prof = cp.C2Profile.from_text(text)
            got = _plain(prof.as_dict())
        except Exception as e:
            res.violate(("C11", "parsed", "exception", type(e).__name__), f"from_text/as_dict raised {e!r} on:\n{text[:600]}")
            return res
        res.log.log("parsed", text, sorted(got))
        if got != want:
            res.violate(("C11", "parsed", "dict_differs", _diff_kind(got, want), "variant" if any(len(it) > 3 for it in items) else "plain"),
                        f"as_dict() of parsed text differs from the profile: {_diff(got, want)}\n{text[:500]}")
        _roundtrip(cp, res, prof, "parsed")
        # history across objects: modify this profile, then parse the SAME text again - the new profile must not see it
        try:
            prof.set_option("sleeptime", "31337")
            if prof.tree.children and hasattr(prof.tree.children[0], "children"):
                from lark import Token, Tree
                prof.tree.children[0].children.append(Tree("jitter_not_a_rule", [Tree("string", [Token("STRING", '"x"')])]))
                prof.tree.children[0].children.pop()
            again = cp.C2Profile.from_text(text)
            got2 = _plain(again.as_dict())
            res.probes["same_text_parsed_twice"] += 1
            if got2 != want:
                res.violate(("C11", "parsed", "second_parse_sees_first_profiles_changes"),
                            f"a second from_text() of the same text is affected by modifications of the first profile: {_diff(got2, want)}")
            want2 = dict(want)
            want2["sleeptime"] = want.get("sleeptime", []) + ["31337"]
            if _plain(prof.as_dict()) != want2:
                res.violate(("C11", "parsed", "modification_not_tracked"),
                            f"as_dict() of a parsed profile does not track set_option(): {_diff(_plain(prof.as_dict()), want2)}")
        except Exception as e:
            res.violate(("C11", "parsed", "exception", type(e).__name__), f"second parse / modification raised {e!r}")
        return res
    # ---------------- history population
    style = plan["style"]
    res.probes[style + "_style"] += 1
    prof = cp.C2Profile()
    other = cp.C2Profile()       # the same profile built with the other call style
    items = []
    attached = []                # (model item, block object) for mutate ops
    read_seen = False
    modified_since_read = False
    res.cases = len(plan["ops"])
    st_ = {}
    for oi, op in enumerate(plan["ops"]):
        try:
            if op[0] == "add":
                it = op[1]
                if it[0] == "opt":
                    prof.set_option(it[1], it[2])
                    other.set_option(it[1], it[2])
                    if any(x[0] == "opt" and x[1] == it[1] for x in items):
                        res.probes["repeated_option"] += 1
                    items.append(it)
                else:
                    if style == "topdown":
                        res.probes["topdown_style"] += 1
                        b = build_block(cp, it[1], it[2], style, attach=lambda blk, n_=it[1]: prof.set_config_block(n_, blk))
                    else:
                        b = build_block(cp, it[1], it[2], style)
                        prof.set_config_block(it[1], b)
                    b2 = build_block(cp, it[1], it[2], "calls" if style == "kwargs" else "kwargs")
                    other.set_config_block(it[1], b2)
                    if any(x[0] == "block" and x[1] == it[1] for x in items):
                        res.probes["repeated_block"] += 1
                    if not it[2]:
                        res.probes["empty_block"] += 1
                    if '"b"]' in __import__("json").dumps(it[2]):
                        res.probes["option_value_as_bytes"] += 1
                    mit = ["block", it[1], list(it[2])]
                    items.append(mit)
                    attached.append((mit, b, b2))
                    flat = str(it)
                    if "'dt'" in flat:
                        res.probes["data_transform_list"] += 1
                        res.nontrivial = True
                    if "'exec'" in flat:
                        res.probes["execute_list"] += 1
                    if "'gate'" in flat:
                        res.probes["beacon_gate_list"] += 1
                    if "'pair'" in flat:
                        res.probes["pair_statement"] += 1
                if read_seen:
                    modified_since_read = True
            elif op[0] == "nested":
                # a statement appended to an already attached block through the profile's own tree (top-level child count
                # unchanged): `set <option> "<value>";` built exactly like ConfigBlock.set_option does
                if not attached:
                    continue
                from lark import Token, Tree
                mit, b, b2 = attached[op[1] % len(attached)]
                opts = BLOCKS[mit[1]][2]
                a = opts[(oi * 7) % len(opts)][0]
                pos = [i for i, x in enumerate(items) if x is mit][0]
                inner = [x for x in mit[2] if x[0] == "block"]
                if inner and (oi + len(op[2])) % 2 == 0:
                    # two levels down (e.g. http-get > client): neither the top-level statement count nor the block's own
                    # statement count changes
                    tgt = inner[(oi // 2) % len(inner)]
                    done = 0
                    for pr in (prof, other):
                        nodes = [c for c in pr.tree.children[pos].children if isinstance(c, Tree) and c.data == tgt[1]]
                        k_ = [x for x in mit[2] if x[0] == "block" and x[1] == tgt[1]].index(tgt)
                        if k_ < len(nodes):
                            nodes[k_].children.append(Tree("header", [Tree("string", [Token("STRING", cp.value_to_string("X-Deep"))]),
                                                                      Tree("string", [Token("STRING", cp.value_to_string(op[2]))])]))
                            done += 1
                    if done == 2:
                        tgt[2].append(["pair", "header", "X-Deep", op[2]])
                        res.probes["nested_modification_two_levels_down"] += 1
                    elif done:
                        raise core.HarnessError("deep modification applied to one of the two profiles only")
                else:
                    for pr in (prof, other):
                        pr.tree.children[pos].children.append(
                            Tree(a, [Tree("string", [Token("STRING", cp.value_to_string(op[2]))])]))
                    mit[2].append(["set", a, op[2]])
                res.probes["nested_modification_via_tree"] += 1
                if read_seen:
                    modified_since_read = True
            elif op[0] == "mutate":
                if not attached:
                    continue
                mit, b, b2 = attached[op[1] % len(attached)]
                opts = BLOCKS[mit[1]][2]
                a = opts[(oi * 7) % len(opts)][0]
                b.set_option(a, op[2][2])
                b2.set_option(a, op[2][2])
                mit[2].append(["set", a, op[2][2]])
                res.probes["block_modified_after_attach"] += 1
                if read_seen:
                    modified_since_read = True
            else:
                kind = op[1]
                want = model_dict(items)
                if modified_since_read:
                    res.probes["read_after_modification"] += 1
                    res.probes["stale_cache_opportunity"] += 1
                    res.nontrivial = True
                if kind in ("as_dict", "properties"):
                    if oi % 3 != 1:
                        # another live profile of the same process is looked at in between: every profile object answers for itself
                        if "sib" not in st_:
                            st_["sib"] = cp.C2Profile()
                            st_["sib"].set_option("sleeptime", "777")
                            st_["sib"].set_option("jitter", "13")
                        sgot = _plain(st_["sib"].as_dict())
                        res.probes["sibling_profile_read_in_between"] += 1
                        if sgot != {"sleeptime": ["777"], "jitter": ["13"]}:
                            res.violate(("C11", "history", "sibling_profile_dict_differs"),
                                        f"a second profile object (sleeptime 777, jitter 13) read between the accesses of this history "
                                        f"reports {sgot!r:.300}")
                            break
                    view = prof.as_dict() if kind == "as_dict" else prof.properties
                    got = _plain(view)
                    # what a caller does with the dictionary it was handed: look up a path the profile does not have - KeyError,
                    # and no trace of the lookup in later reads. (Entries a caller ADDS to the returned dictionary are not
                    # tried: on the pinned tree the returned object is the cache itself, and the property speaks of
                    # modifications of the profile, not of the dictionary.)
                    if (oi + len(got)) % 2 == 0:
                        res.probes["caller_touches_returned_dict"] += 1
                        try:
                            view["no.such.path"]
                            absent = "returned a value"
                        except KeyError:
                            absent = None
                        if absent:
                            res.violate(("C11", "history", "absent_path_lookup_does_not_raise"),
                                        f"looking up a path the profile does not contain in the returned dictionary {absent}")
                            return res
                    res.log.log("read", oi, kind, sorted(got.items()).__repr__())
                    if got != want:
                        res.violate(("C11", "history", "dict_differs", _diff_kind(got, want),
                                     "after_modification" if modified_since_read else "first_read"),
                                    f"after ops {_brief(plan['ops'][:oi + 1])}: {_diff(got, want)}")
                        return res
                elif kind in ("as_text", "str"):
                    t = prof.as_text() if kind == "as_text" else str(prof)
                    res.log.log("read", oi, kind, t)
                else:
                    res.probes["reparse"] += 1
                    if not _roundtrip(cp, res, prof, "history"):
                        return res
                    # semantic reparse of independently printed text
                    p3 = cp.C2Profile.from_text(print_text(items))
                    got = _plain(p3.as_dict())
                    if got != want:
                        res.violate(("C11", "history", "printed_text_dict_differs", _diff_kind(got, want)),
                                    f"as_dict() of the independently printed profile differs: {_diff(got, want)}")
                        return res
                if other.tree != prof.tree:
                    res.violate(("C11", "builder_styles_differ"),
                                f"kwargs-style and call-style construction of the same profile give different trees after {_brief(plan['ops'][:oi + 1])}")
                    return res
                read_seen = True
                modified_since_read = False
        except Exception as e:
            res.violate(("C11", "history", "exception", type(e).__name__, op[0] + (":" + str(op[1]) if op[0] == "read" else "")),
                        f"op {oi} {_brief([op])} raised {e!r} after {_brief(plan['ops'][:oi])}")
            return res
    # ---------------- the constructor's keyword form: the whole profile in ONE call (options and blocks as keywords, which can
    # express distinct names only), read before anything else touches the object
    names = [x[1] for x in items]
    if items and len(names) == len(set(names)) and not any(callable(getattr(cp.C2Profile, n, None)) for n in names):
        try:
            kw = {}
            for x in items:
                kw[x[1]] = x[2] if x[0] == "opt" else build_block(cp, x[1], x[2], "calls")
            third = cp.C2Profile(**kw)
            res.probes["constructor_keywords"] += 1
            got, want = _plain(third.as_dict()), model_dict(items)
            res.log.log("ctor", sorted(got.items()).__repr__())
            if got != want:
                res.violate(("C11", "constructor_keywords", "dict_differs", _diff_kind(got, want)),
                            f"C2Profile(**keywords).as_dict() for {_brief([['add', x] for x in items])}: {_diff(got, want)}")
            elif third.as_text() != prof.as_text():
                res.violate(("C11", "builder_styles_differ", "constructor_keywords"),
                            f"C2Profile(**keywords) and the call-by-call construction of the same profile print differently after "
                            f"{_brief(plan['ops'])}")
        except Exception as e:
            res.violate(("C11", "constructor_keywords", "exception", type(e).__name__),
                        f"C2Profile(**keywords) / as_dict() raised {e!r} for {_brief([['add', x] for x in items])}")
    return res


def _roundtrip(cp, res, prof, tag) -> bool:
    """from_text(as_text()) has an equal tree, equal text and equal dictionary."""
    try:
        text = prof.as_text()
        p2 = cp.C2Profile.from_text(text)
        if p2.tree != prof.tree:
            res.violate(("C11", tag, "reparsed_tree_differs"), f"from_text(as_text()).tree != tree for:\n{text[:500]}")
            return False
        if p2.as_text() != text:
            res.violate(("C11", tag, "reparsed_text_differs"), f"text changes on a second round trip:\n{text[:300]}")
            return False
        if _plain(p2.as_dict()) != _plain(prof.as_dict()):
            res.violate(("C11", tag, "reparsed_dict_differs"), f"{_diff(_plain(p2.as_dict()), _plain(prof.as_dict()))}")
            return False
    except Exception as e:
        res.violate(("C11", tag, "roundtrip_exception", type(e).__name__), f"as_text/from_text raised {e!r}")
        return False
    return True


def _brief(ops):
    out = []
    for op in ops:
        if op[0] == "add":
            out.append("add " + (f"opt {op[1][1]}" if op[1][0] == "opt" else f"block {op[1][1]}[{len(op[1][2])}]"))
        elif op[0] in ("mutate", "nested"):
            out.append(f"{op[0]} #{op[1]}")
        else:
            out.append(op[1])
    return "[" + ", ".join(out) + "]"


def candidates(plan: dict):
    if "parsed" in plan:
        yield from core.shrink_list(plan, ["parsed"], min_len=1)
        for i, it in enumerate(plan["parsed"]):
            if it[0] == "block":
                yield from core.shrink_list(plan, ["parsed", i, 2])
        return
    yield from core.shrink_list(plan, ["ops"], min_len=1)
    for i, op in enumerate(plan["ops"]):
        if op[0] == "add" and op[1][0] == "block":
            yield from core.shrink_list(plan, ["ops", i, 1, 2])
            for j, it in enumerate(op[1][2]):
                if it[0] == "block":
                    yield from core.shrink_list(plan, ["ops", i, 1, 2, j, 2])
                if it[0] == "dt":
                    yield from core.shrink_list(plan, ["ops", i, 1, 2, j, 2])
    if plan["style"] == "kwargs":
        yield core._set(plan, ["style"], "calls")
