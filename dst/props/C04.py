"""C04 — HTTP data transforms follow the Malleable C2 wire format and are invertible (World S).

Two populations: (a) exchange plans - the library's HttpDataTransform (built by C2Http from a generated
configuration, mask key from the seeded PRNG seam) talks to the independent reference codec in both directions,
for arbitrary programs/payloads/initial requests, messages handed over as HttpRequest/HttpResponse tuples;
(b) full sessions (World S) where the same oracles run on the wire between the real client and the peer.
"""
from __future__ import annotations

import struct

from dst import core
from dst.core import Result, hx, unhx
from dst.props import _session
from dst.session import refcodec as rc
from dst.session import sessiongen
from dst.session.config import _word, config_block, gen_config, gen_encoders
from dst.session.light import LightSeams

ID = "C04"
LEVEL = "exploration"
RUNS = {"quick": 5000, "thorough": 120000}
CHUNK = {"quick": 40, "thorough": 200}
PROBES = ["op_mask", "op_base64", "op_base64url", "op_netbios", "op_netbiosu", "op_prepend", "op_append", "empty_affix",
          "term_header", "term_parameter", "term_print", "term_uri_append", "uri_append_nonempty_initial_uri",
          "static_parameter", "static_header", "encoder_repeated", "three_build_blocks", "peer_unpadded_base64url",
          "empty_payload", "binary_affix", "session_population", "transform_without_initial_request", "sibling_configuration",
          "payload_over_64k", "three_build_blocks_tuple_level", "initial_request_without_request_line", "mask_key_with_zero_bytes",
          "case_twin_headers", "static_parameter_query_syntax", "damaged_message_then_intact"]
RULE = ("seeded plans: 85% exchange plans - three programs (every ordering/repetition of the seven encoders up to length 6, "
        "prepend/append arguments incl. empty and binary, each termination kind, 1-3 build blocks, static headers/"
        "parameters) compiled to the binary setting encoding, 4-10 messages with payloads of 0-4096 bytes and arbitrary "
        "initial requests; library transform -> reference decode, reference encode (both base64url padding conventions) "
        "-> library recover, library transform -> library recover; then messages with a missing data header/parameter are shown "
        "to the transform and the intact ones recovered again; 15% full World S sessions. non-trivial = program has "
        ">= 2 encoders or a non-body termination; distinct = distinct digest")
ASSUMPTIONS = [
    "programs are well-formed: every build block ends in a termination, server output terminates with print",
    "base64url padding is accepted either way by the reference decoder (Cobalt Strike strips it, the library keeps it)",
    "header/parameter names used by placements and static decorations are distinct byte strings within a message (a data header may be a case twin of a static header)",
    "the library's server-side transform knows only affix lengths (recover encoding), so its output is decoded with X-filled affixes",
    "trusted: the reference codec (written from the Malleable C2 documentation, anchored to captured traffic)",
]
REAL = ["c2.HttpDataTransform.transform/recover", "c2.C2Http.__init__ (builds the transforms from parsed settings)",
        "beacon.parse_transform_binary/parse_recover_binary (on the path)", "utils.xor/netbios_encode/netbios_decode"]
STUB = ["reference codec (independent interpreter)", "configuration builder", "seeded c2.random (mask key)"]


def _gen_any_program(rng, kind):
    """Arbitrary (not necessarily wire-safe) client program."""
    # (the binary setting encoding knows BUILD 0/1 only: metadata for http-get, id / output for http-post; programs with all
    # three items are exercised at the tuple level, see _combined_program)
    if kind == "get":
        builds = rng.choice([["metadata"], ["metadata"], ["metadata", "output"]])
    else:
        builds = rng.choice([["id", "output"], ["id", "output"], ["output"], ["id"], ["id", "output", "output"]])
    steps = []
    names = set()
    for _ in range(rng.choice([0, 0, 1, 2])):
        if rng.random() < 0.6:
            n = "X-" + _word(rng, 2, 6)
            if n.lower() in names:
                continue
            names.add(n.lower())
            v_ = _word(rng, 0, 9)
            if rng.random() < 0.2:
                v_ = rng.choice(["id: 42", "a: b: c", ": x", "x: "]) + v_      # values that themselves contain colon-space
            steps.append(["_header", hx(f"{n}: {v_}".encode())])
        else:
            n = "s" + _word(rng, 1, 5)
            if n in names:
                continue
            names.add(n)
            pv = _word(rng, 0, 8).encode()
            if rng.random() < 0.3:
                # the program holds the literal value: characters with a meaning in query strings and bytes >= 0x80 are
                # placed as they are (encoding for the wire is the HTTP layer's job, not the transform's)
                pv = rng.choice([b"a+b", b"100%25", b"%41", b"x&y=1", b"a=b=c", b"%zz", b"+", b"caf\xc3\xa9", b"\xff\xfe", b"a b",
                                 b"a;b", b"#frag", b"?q"]) + pv
            steps.append(["_parameter", hx(n.encode() + b"=" + pv)])
    used_print = used_uri = False
    for b in builds:
        steps.append(["build", b])
        steps += gen_encoders(rng, rng.choice([0, 1, 2, 3, 4, 6]), wire_safe=False)
        choices = ["header", "parameter"] + ([] if used_print else ["print", "print"]) + ([] if used_uri else ["uri_append"])
        t = rng.choice(choices)
        if t in ("header", "parameter"):
            n = ("H-" if t == "header" else "p") + _word(rng, 1, 6)
            while n.lower() in names or n in names:
                n = n + _word(rng, 1, 3)
            statics = [bytes.fromhex(s_[1]).partition(b": ")[0].decode() for s_ in steps if s_[0] == "_header"]
            if t == "header" and statics and rng.random() < 0.2:
                # the data header is a case twin of a static header (x-ab / X-AB): two different names for the transform,
                # which keys its header map by the exact bytes
                tw = rng.choice(statics)
                tw = rng.choice([tw.lower(), tw.upper(), tw.swapcase()])
                if tw not in statics and tw not in names:
                    n = tw
                    names.add(n)
            names.add(n.lower() if t == "header" else n)
            steps.append([t, hx(n.encode())])
        else:
            used_print = used_print or t == "print"
            used_uri = used_uri or t == "uri_append"
            if t == "uri_append" and rng.random() < 0.4:
                # what is appended to the URI begins with a slash (or is just a slash-separated path)
                steps.append(["prepend", hx(rng.choice([b"/", b"/" + _word(rng, 1, 6).encode(), b"//", b"/?"]))])
            steps.append([t])
    return steps


def _mask_key(rng) -> int:
    # the mask key is four random bytes: every value of the 32-bit space is legal, including the ones with zero bytes
    r = rng.random()
    if r < 0.12:
        return rng.choice([0, 0, 1, 0xFF, 0x100, 0xFFFF, 0x00FFFFFF, 0xFF000000, 0x01000000, 0xFFFFFFFF, 0x80000000, 0x7FFFFFFF])
    return rng.getrandbits(32)


def _payload(rng, maxlen=4096):
    n = rng.choice([0, 0, 1, 2, 3, 15, 16, 17, 100, 128, 1000, rng.randint(0, maxlen)])
    return bytes(rng.getrandbits(8) for _ in range(n))


def generate(rng, tier, index):
    if rng.random() < 0.15:
        plan = sessiongen.gen_session(rng, ID, tier)
        return plan
    cfg = gen_config(rng, rsa="rsa1024_a")
    cfg["get"] = _gen_any_program(rng, "get")
    cfg["post"] = _gen_any_program(rng, "post")
    cfg["server"] = gen_encoders(rng, rng.choice([0, 1, 2, 3, 4, 6]), wire_safe=False) + [["print"]]
    msgs = []
    for _ in range(rng.randint(4, 10)):
        prog = rng.choice(["get", "post", "server"])
        if prog == "server":
            vals = {"output": hx(_payload(rng))}
        elif prog == "get":
            vals = {"metadata": hx(_payload(rng, 300)), "output": hx(_payload(rng, 300)), "id": hx(_payload(rng, 12))}
        else:
            vals = {"id": hx(rng.choice([str(rng.getrandbits(31)).encode(), _payload(rng, 20)])), "output": hx(_payload(rng)),
                    "metadata": hx(_payload(rng, 200))}
        if rng.random() < 0.02:
            # a payload of more than 64 KiB (chunk-wise implementations of the encoders must keep their phase)
            big = {"gen": [rng.getrandbits(24), rng.choice([65535, 65536, 65537, 70001, 131075])]}
            vals["output"] = big
        initial = {"none": rng.random() < 0.3,
                   "uri": hx(rng.choice([b"", b"", b"/load", b"/a/b.php", b"/", b"/api/", b"/x/y/", _payload(rng, 8)])),
                   "headers": [[hx(b"User-Agent"), hx(b"UA/1.0")]] if rng.random() < 0.6 else [],
                   "params": [[hx(b"z"), hx(b"1")]] if rng.random() < 0.3 else [],
                   "body": hx(rng.choice([b"", b"", b"old-body"])),
                   # a request that has no request line yet (the caller fills verb and URI in afterwards)
                   "method": hx(rng.choice([b"GET", b"GET", b"GET", b"POST", b""]))}
        if prog != "server" and rng.random() < 0.3:
            # the request handed in already carries a header / parameter of a name the program decorates statically (with
            # another value): what the program prescribes is what has to be on the wire
            for st in cfg[prog]:
                if st[0] == "_header":
                    k = bytes.fromhex(st[1]).partition(b": ")[0]
                    initial["headers"] = initial["headers"] + [[hx(k), hx(b"stale-value")]]
                elif st[0] == "_parameter":
                    k = bytes.fromhex(st[1]).partition(b"=")[0]
                    initial["params"] = initial["params"] + [[hx(k), hx(b"stale")]]
        nm = sum(1 for s in cfg[prog] if s[0] == "mask")
        msgs.append({"prog": prog, "values": vals, "initial": initial,
                     "mask_keys": [hx(struct.pack(">I", _mask_key(rng))) for _ in range(nm)],
                     "strip_pad": rng.random() < 0.5})
    return {"world": "S-exchange", "config": cfg, "messages": msgs}


def _flags(steps):
    f = set()
    enc = [s[0] for s in steps if s[0] in rc.ENCODERS]
    if "uri_append" in [s[0] for s in steps]:
        f.add("uri_append")
    return ",".join(sorted(f)) or "plain"


def _sig(direction, kind, exc, sigtail, uri_nonempty):
    if uri_nonempty:
        # one signature for the known API limitation: recover() returns the whole URI (initial URI + appended data)
        return ("C04", direction, "uri_append_with_nonempty_initial_uri", sigtail[0])
    if exc is not None:
        return ("C04", direction, kind, type(exc).__name__) + tuple(sigtail)
    return ("C04", direction, kind) + tuple(sigtail)


def _combined_program(res, cfg, bc, messages):
    """One transform over the steps of the http-get AND the http-post program (as the library parsed them from the
    settings): a program with three build blocks - metadata, id and output - in one of the two orders, which only the
    tuple-level API can express."""
    from dissect.cobaltstrike.c2 import C2Data, HttpDataTransform, HttpRequest
    g, p_ = cfg["get"], cfg["post"]
    builds = [s_[1] for s_ in g + p_ if s_[0] == "build"]
    if sorted(builds) != ["id", "metadata", "output"]:
        return
    terms = [s_[0] for s_ in g + p_ if s_[0] in ("print", "uri_append")]
    names = [rc.arg(s_).lower() for s_ in g + p_ if s_[0] in ("header", "parameter")] + \
            [rc.arg(s_).partition(b": ")[0].lower() for s_ in g + p_ if s_[0] in ("_header", "_hostheader")] + \
            [rc.arg(s_).partition(b"=")[0].lower() for s_ in g + p_ if s_[0] == "_parameter"]
    if len(terms) != len(set(terms)) or len(names) != len(set(names)):
        return
    m = next((m_ for m_ in messages if m_["prog"] == "post"), None)
    if m is None:
        return
    order = len(messages) % 2
    steps = (g + p_) if order else (p_ + g)
    lib_steps = (list(bc.settings["SETTING_C2_REQUEST"]) + list(bc.settings["SETTING_C2_POSTREQ"])) if order else \
        (list(bc.settings["SETTING_C2_POSTREQ"]) + list(bc.settings["SETTING_C2_REQUEST"]))
    vals = {k: (unhx(v) if isinstance(v, str) else _big(v)) for k, v in m["values"].items()}
    want = {"metadata": vals.get("metadata", b"M"), "id": vals.get("id", b"1"), "output": vals.get("output", b"")}
    res.probes["three_build_blocks_tuple_level"] += 1
    sigtail = ("combined", "order=" + ("get+post" if order else "post+get"))
    try:
        t = HttpDataTransform(steps=lib_steps)
        req = t.transform(C2Data(metadata=want["metadata"], id=want["id"], output=want["output"]),
                          request=HttpRequest(method=b"POST", uri=b"", params={}, headers={}, body=b""))
        back = rc.ref_decode_request(steps, req.uri, list(req.params.items()), list(req.headers.items()), req.body, [b""], uri_pct=False)
        if back != want:
            res.violate(("C04", "lib_to_ref", "wrong_data") + sigtail, f"three-block program {steps}: reference decodes {sorted(k for k in want if back.get(k) != want[k])} differently")
        got = t.recover(req)
        gotd = {"metadata": got.metadata, "id": got.id, "output": got.output}
        if any((gotd[k] or b"") != want[k] for k in want):
            res.violate(("C04", "lib_roundtrip", "wrong_data") + sigtail,
                        f"three-block program {steps}: recover(transform(x)) loses {sorted(k for k in want if (gotd[k] or b'') != want[k])}")
        nm = sum(1 for s_ in steps if s_[0] == "mask")
        method, uri, params, headers, body = rc.ref_encode_request(steps, want, b"POST", b"", [], [b"\x01\x02\x03\x04"] * nm, m["strip_pad"])
        got = t.recover(HttpRequest(method=method, uri=uri, params=dict(params), headers=dict(headers), body=body))
        gotd = {"metadata": got.metadata, "id": got.id, "output": got.output}
        if any((gotd[k] or b"") != want[k] for k in want):
            res.violate(("C04", "ref_to_lib", "wrong_data") + sigtail,
                        f"three-block program {steps}: library recovers {sorted(k for k in want if (gotd[k] or b'') != want[k])} differently from a reference-encoded message")
    except rc.RefDecodeError as e:
        res.violate(("C04", "lib_to_ref", "undecodable") + sigtail, f"three-block program {steps}: {e}")
    except Exception as e:  # noqa: BLE001
        res.violate(("C04", "lib_transform_raised", type(e).__name__) + sigtail, f"three-block program {steps}: {e!r}")


def _big(v):
    from dst.storage.builder import prng_bytes
    return prng_bytes(v["gen"][0], v["gen"][1])


def _sibling(cfg):
    import copy
    sib = copy.deepcopy(cfg)

    def other(b: bytes) -> bytes:
        return bytes((c ^ 0x01) if (0x30 <= c <= 0x39 or 0x41 <= c <= 0x5A or 0x61 <= c <= 0x7A) and
                     (0x30 <= (c ^ 0x01) <= 0x39 or 0x41 <= (c ^ 0x01) <= 0x5A or 0x61 <= (c ^ 0x01) <= 0x7A) else c for c in b)
    for prog in ("get", "post", "server"):
        for st in sib[prog]:
            if st[0] in ("header", "parameter") and len(st) > 1:
                st[1] = hx(other(unhx(st[1])))
            elif st[0] in ("prepend", "append") and len(st) > 1 and st[1]:
                st[1] = hx(bytes((c + 1) & 0xFF for c in unhx(st[1])))
            elif st[0] in ("_header", "_parameter"):
                sep = b": " if st[0] == "_header" else b"="
                k, _, v = unhx(st[1]).partition(sep)
                st[1] = hx(other(k) + sep + v)
    return sib


def _exchange(res, cfg, messages, probes):
    from dissect.cobaltstrike.beacon import BeaconConfig
    from dissect.cobaltstrike.c2 import C2Data, C2Http, ClientC2Data, HttpRequest, HttpResponse
    bc = BeaconConfig(config_block(cfg))
    if True:
        c2 = C2Http(bc, aes_key=b"k" * 16, hmac_key=b"h" * 16)
        tf = {"get": c2.transform_get, "post": c2.transform_submit, "server": c2.transform_response}
        for prog in ("get", "post", "server"):
            steps = cfg[prog]
            encs = [s[0] for s in steps if s[0] in rc.ENCODERS]
            for s in steps:
                if s[0] in rc.ENCODERS:
                    res.probes["op_" + s[0]] += 1
                if s[0] in rc.TERMINATIONS:
                    res.probes["term_" + s[0]] += 1
                if s[0] == "_parameter":
                    res.probes["static_parameter"] += 1
                    if any(c in unhx(s[1]).partition(b"=")[2] for c in b"+%&=;#? ") or any(c > 126 for c in unhx(s[1])):
                        res.probes["static_parameter_query_syntax"] += 1
                if s[0] == "_header":
                    res.probes["static_header"] += 1
                if s[0] in ("prepend", "append"):
                    if s[1] == "":
                        res.probes["empty_affix"] += 1
                    elif any(b > 126 or b < 32 for b in unhx(s[1])):
                        res.probes["binary_affix"] += 1
            hn = [rc.arg(s_).partition(b": ")[0] for s_ in steps if s_[0] == "_header"] + [rc.arg(s_) for s_ in steps if s_[0] == "header"]
            if len({h.lower() for h in hn}) < len(set(hn)):
                res.probes["case_twin_headers"] += 1
            if len(encs) != len(set(encs)):
                res.probes["encoder_repeated"] += 1
            if sum(1 for s in steps if s[0] == "build") >= 3:
                res.probes["three_build_blocks"] += 1
            if len(encs) >= 2 or any(s[0] in ("header", "parameter", "uri_append") for s in steps):
                res.nontrivial = True
        produced = []
        for mi, m in enumerate(messages):
            prog = m["prog"]
            steps = cfg[prog]
            t = tf[prog]
            vals = {k: (unhx(v) if isinstance(v, str) else _big(v)) for k, v in m["values"].items()}
            if any(not isinstance(v, str) for v in m["values"].values()):
                res.probes["payload_over_64k"] += 1
            builds = [s[1] for s in steps if s[0] == "build"] if prog != "server" else ["output"]
            want = {b: vals.get(b, b"") for b in builds}
            if not any(want.values()):
                res.probes["empty_payload"] += 1
            ini = m["initial"]
            res.cases += 1
            sigtail = (prog, _flags(steps))
            if prog == "server":
                # ---- library encodes (X-filled affixes), reference decodes
                try:
                    out = t.transform(C2Data(output=vals["output"]))
                    body = out.body
                    xsteps = [[s[0], hx(b"X" * len(unhx(s[1])))] if s[0] in ("prepend", "append") else s for s in steps]
                    back = rc.ref_decode_response_body(xsteps, body)
                    res.log.log("srv_lib2ref", mi, body)
                    if back != vals["output"]:
                        res.violate(("C04", "lib_to_ref", "wrong_data") + sigtail,
                                    f"library-encoded server output (program {steps}) decodes with the reference to "
                                    f"{back[:40].hex()}.. ({len(back)} B), sent {vals['output'][:40].hex()}.. ({len(vals['output'])} B)")
                except rc.RefDecodeError as e:
                    res.violate(("C04", "lib_to_ref", "undecodable") + sigtail,
                                f"reference cannot decode library-encoded server output: {e}; program {steps}")
                except Exception as e:
                    res.violate(("C04", "lib_transform_raised", type(e).__name__) + sigtail,
                                f"transform raised {e!r} for server program {steps}")
                # ---- reference encodes, library recovers
                body = rc.ref_encode_response_body(steps, vals["output"], [unhx(k) for k in m["mask_keys"]], m["strip_pad"])
                if m["strip_pad"] and any(s[0] == "base64url" for s in steps):
                    res.probes["peer_unpadded_base64url"] += 1
                try:
                    got = t.recover(HttpResponse(status=200, reason=b"OK", headers={}, body=body))
                    res.log.log("srv_ref2lib", mi, body, got.output)
                    if (got.output or b"") != vals["output"]:
                        res.violate(("C04", "ref_to_lib", "wrong_data") + sigtail,
                                    f"reference-encoded server output (program {steps}, strip_pad={m['strip_pad']}) recovers with "
                                    f"the library to {(got.output or b'')[:40].hex()}.. ({len(got.output or b'')} B), sent "
                                    f"{vals['output'][:40].hex()}.. ({len(vals['output'])} B)")
                except Exception as e:
                    res.violate(("C04", "ref_to_lib", "raised", type(e).__name__) + sigtail,
                                f"library recover raised {e!r} on a reference-encoded server output; program {steps}")
                continue
            # ---- client programs
            if ini.get("none"):
                # no initial request: the library starts from its own empty request
                ini = {"none": True, "uri": "", "headers": [], "params": [], "body": ""}
                init_req = None
                res.probes["transform_without_initial_request"] += 1
            else:
                init_req = HttpRequest(method=unhx(ini.get("method", hx(b"GET"))), uri=unhx(ini["uri"]), params={unhx(k): unhx(v) for k, v in ini["params"]},
                                       headers={unhx(k): unhx(v) for k, v in ini["headers"]}, body=unhx(ini["body"]))
            uri_nonempty = bool(unhx(ini["uri"])) and any(s[0] == "uri_append" for s in steps)
            if uri_nonempty:
                res.probes["uri_append_nonempty_initial_uri"] += 1
            sig2 = sigtail + (("initial_uri=nonempty",) if uri_nonempty else ())
            c2d = C2Data(output=vals.get("output"), metadata=vals.get("metadata"), id=vals.get("id"))
            try:
                req = t.transform(c2d, request=init_req)
            except Exception as e:
                res.violate(("C04", "lib_transform_raised", type(e).__name__) + sigtail,
                            f"transform raised {e!r} for program {steps}")
                continue
            res.log.log("cli_lib", mi, req.uri, sorted(req.params.items()), sorted(req.headers.items()), req.body)
            produced.append((mi, prog, steps, req, want, unhx(ini["uri"])))
            if init_req is not None:
                # "any initial request": what the caller's request already carried and the program does not set stays
                set_h = {rc.arg(s_).partition(b": ")[0] for s_ in steps if s_[0] in ("_header", "_hostheader")} | \
                        {rc.arg(s_) for s_ in steps if s_[0] == "header"}
                set_p = {rc.arg(s_).partition(b"=")[0] for s_ in steps if s_[0] == "_parameter"} | \
                        {rc.arg(s_) for s_ in steps if s_[0] == "parameter"}
                lost = [k for k, v in init_req.headers.items() if k not in set_h and req.headers.get(k) != v] + \
                       [k for k, v in init_req.params.items() if k not in set_p and req.params.get(k) != v]
                if req.method != init_req.method:
                    lost.append(b"<method>")
                if not init_req.method and not init_req.uri:
                    res.probes["initial_request_without_request_line"] += 1
                if lost:
                    res.violate(("C04", "initial_request_parts_lost", prog, "no_request_line" if not (init_req.method or init_req.uri) else "with_request_line"),
                                f"transform(.., request=r) with r = (method {init_req.method!r}, uri {init_req.uri!r}, headers "
                                f"{dict(init_req.headers)!r:.200}, params {dict(init_req.params)!r:.200}) returned a message without "
                                f"{lost!r:.200}, which the program does not set (program {steps})")
            if init_req is None:
                # nothing but what the program prescribes may be in a message built from scratch
                allowed_h = {rc.arg(s_).partition(b": ")[0] for s_ in steps if s_[0] in ("_header", "_hostheader")} | \
                            {rc.arg(s_) for s_ in steps if s_[0] == "header"}
                allowed_p = {rc.arg(s_).partition(b"=")[0] for s_ in steps if s_[0] == "_parameter"} | \
                            {rc.arg(s_) for s_ in steps if s_[0] == "parameter"}
                extra = [k for k in req.headers if k not in allowed_h] + [k for k in req.params if k not in allowed_p]
                if extra:
                    res.violate(("C04", "stale_parts_in_fresh_message", prog),
                                f"a {prog} message transformed without an initial request carries parts the program does not "
                                f"prescribe: {extra!r:.200} (message #{mi} of this history; program {steps})")
            try:
                back = rc.ref_decode_request(steps, req.uri, list(req.params.items()), list(req.headers.items()), req.body,
                                             [unhx(ini["uri"])], uri_pct=False)
                if back != want:
                    bad = [b for b in want if back.get(b) != want[b]]
                    res.violate(("C04", "lib_to_ref", "wrong_data") + sigtail,
                                f"library-encoded {prog} message decodes with the reference to different {bad}: "
                                f"{ {b: back.get(b, b'')[:24].hex() for b in bad} } sent { {b: want[b][:24].hex() for b in bad} }; program {steps}")
            except rc.RefDecodeError as e:
                res.violate(("C04", "lib_to_ref", "undecodable") + sigtail,
                            f"reference cannot decode the library-encoded {prog} message: {e}; program {steps}; "
                            f"uri={req.uri!r:.80} params={dict(list(req.params.items())[:3])!r:.200} headers={dict(list(req.headers.items())[:4])!r:.200}")
            # library recover of its own message
            try:
                got = t.recover(req)
                gotd = {"metadata": got.metadata, "id": got.id, "output": got.output}
                if any((gotd[b] or b"") != want[b] for b in want):
                    bad = [b for b in want if (gotd[b] or b"") != want[b]]
                    res.violate(_sig("lib_roundtrip", "wrong_data", None, sigtail, uri_nonempty),
                                f"recover(transform(x)) != x for {bad} with program {steps} and initial uri {unhx(ini['uri'])!r}: "
                                f"{ {b: (gotd[b] or b'')[:24].hex() for b in bad} } vs { {b: want[b][:24].hex() for b in bad} }")
            except Exception as e:
                res.violate(_sig("lib_roundtrip", "raised", e, sigtail, uri_nonempty),
                            f"recover raised {e!r} on the library's own message; program {steps}; initial uri {unhx(ini['uri'])!r}")
            # ---- reference encodes, library recovers
            method, uri, params, headers, body = rc.ref_encode_request(
                steps, want, b"GET", unhx(ini["uri"]), [(unhx(k), unhx(v)) for k, v in ini["headers"]],
                [unhx(k) for k in m["mask_keys"]], m["strip_pad"])
            params = [(unhx(k), unhx(v)) for k, v in ini["params"]] + params
            try:
                got = t.recover(HttpRequest(method=method, uri=uri, params=dict(params), headers=dict(headers), body=body))
                gotd = {"metadata": got.metadata, "id": got.id, "output": got.output}
                res.log.log("cli_ref2lib", mi, uri, body)
                if any((gotd[b] or b"") != want[b] for b in want):
                    bad = [b for b in want if (gotd[b] or b"") != want[b]]
                    res.violate(_sig("ref_to_lib", "wrong_data", None, sigtail, uri_nonempty),
                                f"reference-encoded {prog} message recovers with the library to different {bad}: "
                                f"{ {b: (gotd[b] or b'')[:24].hex() for b in bad} } vs { {b: want[b][:24].hex() for b in bad} }; program {steps}; "
                                f"initial uri {unhx(ini['uri'])!r}")
            except Exception as e:
                res.violate(_sig("ref_to_lib", "raised", e, sigtail, uri_nonempty),
                            f"library recover raised {e!r} on a reference-encoded {prog} message; program {steps}; "
                            f"initial uri {unhx(ini['uri'])!r}")
        _combined_program(res, cfg, bc, messages)
        # ---- history check: messages produced earlier must still decode to what was put in (no shared mutable state)
        for mi, prog, steps, req, want, base in produced:
            try:
                back = rc.ref_decode_request(steps, req.uri, list(req.params.items()), list(req.headers.items()), req.body,
                                             [base], uri_pct=False)
            except rc.RefDecodeError as e:
                back = {"error": str(e)}
            if back != want:
                res.violate(("C04", "earlier_message_changed_by_later_transform", prog),
                            f"{prog} message #{mi} no longer decodes to its data after later transform() calls on the same "
                            f"decoder: {str(back)[:200]} vs {str(want)[:200]}")
                break
        # ---- a fault, then intact messages: the transform is shown messages whose data carrier (the header / parameter of one
        # build block) is missing - whatever it does with them - and afterwards has to recover the intact messages exactly
        shown = 0
        for mi, prog, steps, req, want, base in produced[:6]:
            terms = [s_ for s_ in steps if s_[0] in ("header", "parameter")]
            if not terms:
                continue
            s_ = terms[mi % len(terms)]
            hd, pr = dict(req.headers), dict(req.params)
            (hd if s_[0] == "header" else pr).pop(rc.arg(s_), None)
            try:
                tf[prog].recover(HttpRequest(method=req.method, uri=req.uri, params=pr, headers=hd, body=req.body))
            except Exception:
                pass
            shown += 1
        if shown:
            res.probes["damaged_message_then_intact"] += 1
            for mi, prog, steps, req, want, base in produced:
                if base and any(s_[0] == "uri_append" for s_ in steps):
                    continue        # (known finding F-C04-1 territory: judged above under its own signature)
                try:
                    got = tf[prog].recover(req)
                    gotd = {"metadata": got.metadata, "id": got.id, "output": got.output}
                    bad = [b for b in want if (gotd[b] or b"") != want[b]]
                except Exception as e:
                    bad = [repr(e)]
                if bad:
                    res.violate(("C04", "intact_message_after_damaged_one", prog),
                                f"after recover() was shown messages with a missing data header / parameter, the intact {prog} "
                                f"message #{mi} no longer recovers to its data ({bad!r:.200}); program {steps}")
                    break


def execute(plan: dict) -> Result:
    if plan.get("world") != "S-exchange":
        r = _session.execute_session(plan, ID)
        r.probes["session_population"] += 1
        return r
    from dissect.cobaltstrike.beacon import BeaconConfig
    from dissect.cobaltstrike.c2 import C2Data, C2Http, ClientC2Data, HttpRequest, HttpResponse
    res = Result()
    res.cases = 0
    with LightSeams(plan.get("run_seed", "0" * 16)):
        _exchange(res, plan["config"], plan["messages"], True)
        if True:
            # a sibling configuration in the same process: same program shapes, same argument LENGTHS, other names and
            # other affix bytes - whatever the library remembers about the first one (compiled programs, placements) must
            # not be applied to this one
            sib = _sibling(plan["config"])
            res.probes["sibling_configuration"] += 1
            _exchange(res, sib, plan["messages"][:4], False)
    return res


def candidates(plan: dict):
    if plan.get("world") != "S-exchange":
        yield from sessiongen.candidates(plan)
        return
    yield from core.shrink_list(plan, ["messages"], min_len=1)
    for prog in ("get", "post", "server"):
        steps = plan["config"][prog]
        for j, st in enumerate(steps):
            if st[0] in rc.ENCODERS or st[0] in rc.STATIC:
                new = core._set(plan, ["config", prog], steps[:j] + steps[j + 1:])
                if st[0] == "mask":
                    for m in new["messages"]:
                        if m["prog"] == prog and m["mask_keys"]:
                            m["mask_keys"] = m["mask_keys"][:-1]
                yield new
            if st[0] in ("prepend", "append") and len(st[1]) > 2:
                yield core._set(plan, ["config", prog, j], [st[0], st[1][:2]])
    for i, m in enumerate(plan["messages"]):
        for k in m["values"]:
            if isinstance(m["values"][k], str):
                yield from core.shrink_hex(plan, ["messages", i, "values", k])
        yield from core.shrink_hex(plan, ["messages", i, "initial", "uri"])
        if m["initial"]["headers"]:
            yield core._set(plan, ["messages", i, "initial", "headers"], [])
        if m["initial"]["params"]:
            yield core._set(plan, ["messages", i, "initial", "params"], [])
