"""C07 — end-to-end: traffic produced by a beacon is decoded to the packets sent (World S).

Real HttpBeaconClient threads + reference team server + faulty network + virtual clock; the wire tap is decoded by
C2Http under four key-material variants and must equal the ground truth recorded at the source.
"""
from __future__ import annotations

from dst.props import _session
from dst.session import sessiongen

ID = "C07"
LEVEL = "exploration"
RUNS = {"quick": 1300, "thorough": 30000}
CHUNK = {"quick": 10, "thorough": 40}
PROBES = ["late_registration", "multi_frame_post", "identity_probe", "client_restarted", "task_lost_in_flight_seen", "multi_client", "noise_on_wire", "metadata_cache_hit_possible",
          "op_mask", "op_base64", "op_base64url", "op_netbios", "op_netbiosu", "op_prepend", "op_append", "op_header",
          "op_parameter", "op_print", "op_uri_append", "op__header", "op__parameter", "peer_unpadded_base64url",
          "client_crashed_on_corrupt_response", "handler_on_kth_task_k>=3"]
RULE = ("seeded session plans: generated HTTP(S) beacon configuration (1-3 domain/URI pairs, verbs, submit URI, three "
        "data-transform programs with printable placements incl. static headers/parameters and uri-append), 1-3 real "
        "clients sharing one BeaconConfig, operator task list, handlers producing 0-4 callbacks, raw multi-frame POSTs (2-5 framed callbacks built with the library primitives), noise traffic, and a "
        "fault list keyed by (client, request ordinal): drop_request, drop_response, dup_request, http_error, "
        "corrupt_request, corrupt_response, delay, restart, clock jump. non-trivial = at least one task received and "
        "one callback decoded by the peer and (a fault fired or several clients interleave); distinct = distinct "
        "event-log digest; interleaving shapes = distinct (event kind) sequences; 8% of the runs are kernel-less re-run plans: one "
        "client object run for configuration A, used against a transport that is down, then run for configuration B")
ASSUMPTIONS = [
    "when get and post verbs are equal, get URIs and submit URI are not prefixes of one another (routing is by verb+prefix)",
    "get URIs may be prefixes of one another, but the longer one then continues with a character ('.', '~') that no encoder alphabet or generated affix contains (otherwise uri-append data after the shorter URI could spell the longer URI: ambiguous by construction)",
    "one passive decoder per beacon and key variant; the RSA-only decoder may reject packets seen before a first check-in",
    "a message hit by corrupt_request may raise anything or decode to a subset of the original packets, never to a different packet (verifying decoders)",
    "error responses and responses to noise are not fed to the decoders (no routing promise exists for responses)",
    "handlers pass BeaconCallback enum members to send_callback (plain ints fail inside dissect.cstruct 4.7 and are logged and dropped by the client loop; no property covers that)",
    "trusted: reference team server/codec (anchored to the captured Cobalt Strike traffic in tests/test_c2.py), PyCryptodome, httpx request construction",
]
REAL = ["client.HttpBeaconClient.run/_beacon_loop/get_task/send_callback/get_handlers", "c2.C2Http", "c2.HttpDataTransform",
        "c2.parse_raw_http", "c2.encrypt_metadata/decrypt_metadata/encrypt_packet/decrypt_packet", "beacon.BeaconConfig (parse of the generated block)",
        "httpx.Client request construction"]
STUB = ["network transport + fault injector", "virtual clock", "seeded PRNGs (random, Crypto.Random)", "reference team server (independent codec)",
        "operator", "noise generator", "wire tap driver (mirrors pcap.py; tshark not available)"]


def generate(rng, tier, index):
    if rng.random() < 0.08:
        # one client OBJECT used for configuration A and then run again for configuration B (kernel-less: the transport is down,
        # what the client hands to it is recorded)
        from dst.session.config import gen_config
        return {"world": "S-rerun", "A": gen_config(rng, allow_uri_append=True, rsa="rsa1024_a"),
                "B": gen_config(rng, allow_uri_append=True, rsa="rsa1024_a"), "beacon_id": 2 * rng.getrandbits(30),
                "use_A": rng.choice([["get"], ["get", "post"], ["post"], ["get", "get", "post"], []]),
                "data": rng.choice(["", "x", "callback output \u00e9"])}
    return sessiongen.gen_session(rng, ID, tier)


def execute(plan):
    if plan.get("world") == "S-rerun":
        return _execute_rerun(plan)
    return _session.execute_session(plan, ID)


def candidates(plan):
    if plan.get("world") == "S-rerun":
        return []
    return sessiongen.candidates(plan)


class _DownHttpx:
    """Stands in for the httpx module inside the client: records what the client hands to the transport and reports the
    connection as failed (the client logs that and goes on)."""

    def __init__(self):
        import httpx
        self._httpx = httpx
        self.RequestError = httpx.RequestError
        self.HTTPStatusError = httpx.HTTPStatusError
        self.sent = []

    def request(self, method, url, headers=None, params=None, content=None, **kw):
        m = method.decode() if isinstance(method, bytes) else method
        self.sent.append((m, url, dict(headers or {}), dict(params or {}), content or b""))
        raise self._httpx.ConnectError("simulated: connection refused", request=self._httpx.Request(m, url))

    def __getattr__(self, name):
        return getattr(self._httpx, name)


def _execute_rerun(plan):
    from dst.core import Result
    from dst.session import refcodec as rc
    from dst.session.config import config_block, rsa_key
    from dst.session.light import LightSeams
    from dissect.cobaltstrike import client as client_mod
    from dissect.cobaltstrike.beacon import BeaconConfig
    from dissect.cobaltstrike.c_c2 import BeaconCallback
    from dissect.cobaltstrike.client import HttpBeaconClient
    res = Result()
    res.nontrivial = True
    res.probes["client_object_run_for_another_configuration"] += 1
    priv = rsa_key("rsa1024_a")
    opts = dict(dry_run=True, beacon_id=plan["beacon_id"], user="u", computer="c", process="p.exe", internal_ip="10.0.0.1", arch="x64", pid=7)
    with LightSeams(plan.get("run_seed", "0" * 16)):
        fake = _DownHttpx()
        saved = client_mod.httpx
        client_mod.httpx = fake
        try:
            bcA, bcB = BeaconConfig(config_block(plan["A"])), BeaconConfig(config_block(plan["B"]))
            c = HttpBeaconClient()
            c.run(bcA, **opts)
            for what in plan["use_A"]:
                if what == "get":
                    c.get_task()
                else:
                    c.send_callback(BeaconCallback.CALLBACK_OUTPUT, plan["data"].encode())
            c.run(bcB, **opts)
            del fake.sent[:]
            c.get_task()
            c.send_callback(BeaconCallback.CALLBACK_OUTPUT, plan["data"].encode())
            sent = list(fake.sent)
        finally:
            client_mod.httpx = saved
    res.cases = len(sent)
    cfg = plan["B"]
    if len(sent) != 2:
        res.violate(("C07", "rerun", "requests_missing"), f"client run again for another configuration handed {len(sent)} requests to the transport for one check-in and one callback")
        return res
    for (method, url, headers, params, content), kind in zip(sent, ("get", "post")):
        verb = cfg["verb_get"] if kind == "get" else cfg["verb_post"]
        bases = [u for _, u in cfg["domains"]] if kind == "get" else [cfg["submit"]]
        path = "/" + url.split("://", 1)[-1].partition("/")[2]
        res.log.log("rerun", kind, method, path, sorted(params.items()), sorted((str(k), str(v)) for k, v in headers.items()), content)
        tobytes = lambda x: x if isinstance(x, bytes) else str(x).encode("latin-1")  # noqa: E731
        problem = None
        if method != verb:
            problem = f"verb {method!r}, configuration B says {verb!r}"
        elif not any(path.startswith(b_) for b_ in bases):
            problem = f"path {path!r:.80} under none of configuration B's URIs {bases}"
        else:
            try:
                back = rc.ref_decode_request(cfg[kind], path.encode("latin-1"), [(tobytes(k), tobytes(v)) for k, v in params.items()],
                                             [(tobytes(k), tobytes(v)) for k, v in headers.items()], tobytes(content),
                                             [b_.encode() for b_ in bases], uri_pct=False)
                if kind == "get":
                    pt = rc.rsa_decrypt(back["metadata"], priv)
                    if pt is None or rc.parse_metadata(pt)["bid"] != plan["beacon_id"]:
                        problem = "the metadata placed by configuration B's http-get program does not decrypt to this beacon's check-in"
                elif back.get("id") != str(plan["beacon_id"]).encode():
                    problem = f"id decodes to {back.get('id')!r:.60}"
            except rc.RefDecodeError as e:
                problem = f"not decodable under configuration B's http-{kind} program: {e}"
        if problem:
            res.violate(("C07", "rerun", "request_not_of_current_configuration", kind),
                        f"one client object used for configuration A ({plan['use_A']}) and then run for configuration B sends a {kind} "
                        f"request that does not follow B: {problem}")
            break
    return res
