"""C07 — end-to-end: traffic produced by a beacon is decoded to the packets sent (World S).

Real HttpBeaconClient threads + reference team server + faulty network + virtual clock; the wire tap is decoded by
C2Http under four key-material variants and must equal the ground truth recorded at the source.
"""
from __future__ import annotations

from dst.props import _session
from dst.session import sessiongen

ID = "C07"
LEVEL = "exploration"
RUNS = {"quick": 1300, "thorough": 30000}
CHUNK = {"quick": 10, "thorough": 40}
PROBES = ["late_registration", "multi_frame_post", "identity_probe", "client_restarted", "task_lost_in_flight_seen", "multi_client", "noise_on_wire", "metadata_cache_hit_possible",
          "op_mask", "op_base64", "op_base64url", "op_netbios", "op_netbiosu", "op_prepend", "op_append", "op_header",
          "op_parameter", "op_print", "op_uri_append", "op__header", "op__parameter", "peer_unpadded_base64url",
          "client_crashed_on_corrupt_response", "handler_on_kth_task_k>=3"]
RULE = ("seeded session plans: generated HTTP(S) beacon configuration (1-3 domain/URI pairs, verbs, submit URI, three "
        "data-transform programs with printable placements incl. static headers/parameters and uri-append), 1-3 real "
        "clients sharing one BeaconConfig, operator task list, handlers producing 0-4 callbacks, raw multi-frame POSTs (2-5 framed callbacks built with the library primitives), noise traffic, and a "
        "fault list keyed by (client, request ordinal): drop_request, drop_response, dup_request, http_error, "
        "corrupt_request, corrupt_response, delay, restart, clock jump. non-trivial = at least one task received and "
        "one callback decoded by the peer and (a fault fired or several clients interleave); distinct = distinct "
        "event-log digest; interleaving shapes = distinct (event kind) sequences")
ASSUMPTIONS = [
    "when get and post verbs are equal, get URIs and submit URI are not prefixes of one another (routing is by verb+prefix)",
    "get URIs may be prefixes of one another, but the longer one then continues with a character ('.', '~') that no encoder alphabet or generated affix contains (otherwise uri-append data after the shorter URI could spell the longer URI: ambiguous by construction)",
    "one passive decoder per beacon and key variant; the RSA-only decoder may reject packets seen before a first check-in",
    "a message hit by corrupt_request may raise anything or decode to a subset of the original packets, never to a different packet (verifying decoders)",
    "error responses and responses to noise are not fed to the decoders (no routing promise exists for responses)",
    "handlers pass BeaconCallback enum members to send_callback (plain ints fail inside dissect.cstruct 4.7 and are logged and dropped by the client loop; no property covers that)",
    "trusted: reference team server/codec (anchored to the captured Cobalt Strike traffic in tests/test_c2.py), PyCryptodome, httpx request construction",
]
REAL = ["client.HttpBeaconClient.run/_beacon_loop/get_task/send_callback/get_handlers", "c2.C2Http", "c2.HttpDataTransform",
        "c2.parse_raw_http", "c2.encrypt_metadata/decrypt_metadata/encrypt_packet/decrypt_packet", "beacon.BeaconConfig (parse of the generated block)",
        "httpx.Client request construction"]
STUB = ["network transport + fault injector", "virtual clock", "seeded PRNGs (random, Crypto.Random)", "reference team server (independent codec)",
        "operator", "noise generator", "wire tap driver (mirrors pcap.py; tshark not available)"]


def generate(rng, tier, index):
    return sessiongen.gen_session(rng, ID, tier)


def execute(plan):
    return _session.execute_session(plan, ID)


candidates = sessiongen.candidates
