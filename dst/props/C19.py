"""C19 — stable identity, jitter band, exactly-once dispatch (World S sessions biased to long lives).

Real HttpBeaconClient threads + reference team server + faulty network + virtual clock; the wire tap is decoded by
C2Http under four key-material variants and must equal the ground truth recorded at the source.
"""
from __future__ import annotations

from dst.props import _session
from dst.session import sessiongen

ID = "C19"
LEVEL = "exploration"
RUNS = {"quick": 1300, "thorough": 24000}
CHUNK = {"quick": 10, "thorough": 40}
PROBES = ["late_registration", "multi_frame_post", "identity_probe", "client_restarted", "same_command_3_times", "task_lost_in_flight_seen", "multi_client", "noise_on_wire", "metadata_cache_hit_possible",
          "op_mask", "op_base64", "op_base64url", "op_netbios", "op_netbiosu", "op_prepend", "op_append", "op_header",
          "op_parameter", "op_print", "op_uri_append", "op__header", "op__parameter", "peer_unpadded_base64url",
          "client_crashed_on_corrupt_response", "handler_on_kth_task_k>=3"]
RULE = ("seeded session plans biased to long lives (10-120 check-ins, up to 40 tasks with repeated commands), every "
        "combination of decorator / several decorators / on_<command> method / catch-all decorator / on_catch_all method "
        "registrations, requested beacon ids over all integers (negative, odd, >= 2^31, >= 2^32), user/computer names "
        "over unicode and lengths 0-200, sleeptime/jitter 0-100 incl. changes by a handler mid-run, 0-3 crash/restarts "
        "with the same id, network faults. Oracles: id even, in range and equal across check-ins/restarts and in POST id; "
        "aes_rand equal across restarts; every time.sleep within [sleeptime*(1-jitter/100), sleeptime]; metadata "
        "encrypts for the configured RSA key; per received task the multiset of handler invocations equals the "
        "reference registry; queued tasks drain within the liveness bound after the last fault. non-trivial = a task "
        "was received and a callback decoded and a fault fired or clients interleave; distinct = distinct digest")
ASSUMPTIONS = [
    "commands are BeaconCommand members other than 6 (get_task filters 6 by design; unknown ids are outside the statement)",
    "empty-task handlers are not asserted on (they only fire in silent mode)",
    "a dispatch cut short by a crash/kill is not a missing dispatch",
    "requested ids outside [0, 2^32) are only required to be rejected or presented even and in range",
    "trusted: reference team server/codec, PyCryptodome, httpx request construction",
]
REAL = ["client.HttpBeaconClient.run/_beacon_loop/get_task/send_callback/get_handlers", "c2.C2Http", "c2.HttpDataTransform",
        "c2.parse_raw_http", "c2.encrypt_metadata/decrypt_metadata/encrypt_packet/decrypt_packet", "beacon.BeaconConfig (parse of the generated block)",
        "httpx.Client request construction"]
STUB = ["network transport + fault injector", "virtual clock", "seeded PRNGs (random, Crypto.Random)", "reference team server (independent codec)",
        "operator", "noise generator", "wire tap driver (mirrors pcap.py; tshark not available)"]


def generate(rng, tier, index):
    return sessiongen.gen_session(rng, ID, tier)


def execute(plan):
    return _session.execute_session(plan, ID)


candidates = sessiongen.candidates
