"""C08 — untrusted input never crashes or hangs the parsers (World F, fault enumeration).

Stored payloads under storage faults (truncation, bit rot, crafted structure fields, splices, garbage) are pushed
through every entry point that accepts untrusted bytes, on a simulated device whose reader-call budget and stall
detector are the deterministic clock for "terminates". Outcome must be the documented value or ValueError.
"""
from __future__ import annotations

import os
import struct
import tempfile
import traceback
import zipfile

from dst import core
from dst.core import Result, hx, unhx
from dst.storage import builder, images
from dst.storage.simfile import Budget, IoSeam, ReadBudgetExceeded

ID = "C08"
MEM_LIMIT_GB = 3     # address-space limit of the processes executing runs (see run.py _Guarded)
RUN_WALL_S = 90    # per-run wall-clock alarm for loops that perform no I/O (see core.guarded)
LEVEL = "fault_enumeration"
RUNS = {"quick": 700, "thorough": 25000}
CHUNK = {"quick": 16, "thorough": 64}
PROBES = ["eof_inside_dos_header", "eof_inside_file_header", "eof_inside_optional_header", "eof_inside_section_table",
          "eof_inside_export_dir", "eof_inside_setting", "ua_continuation_entered", "guard_marker_found",
          "guard_negative_config_offset", "export_rva_in_section", "artifact_header_matched", "real_sample_base",
          "splice", "http_shaped", "mz_found", "config_still_found", "xorencoded_detected"]
RULE = ("systematic population (fault enumeration): for each of 9 builder base images (raw/PE x86/PE x64/XorEncoded "
        "PE/Guardrails raw/Guardrails XorEncoded/ArtifactKit/HTTP request/HTTP response) every truncation at each mapped "
        "structure boundary -1/0/+1 and at 256 (quick: 40) evenly spread offsets, every crafted value of every mapped "
        "structure field, and single-bit flips of every bit of every byte of every mapped header structure (quick: one "
        "bit of every third byte); seeded population: 1-3 random faults (truncate, flip, overwrite, crafted field, splice of two "
        "payloads, zero tail, appended garbage) on builder images, the 7 real samples, or pure garbage. Each faulty "
        "image goes through all 14 entry points. non-trivial = at least one entry point took a non-default path "
        "(found MZ / config / marker / header, or raised ValueError after partial parsing); distinct = distinct digest")
ASSUMPTIONS = [
    "reader is a full-read seekable file (SimFile == BytesIO semantics; from_path uses a real scratch file)",
    "termination is judged by a reader-call budget (3000 calls per input byte, at least 6M: > 50x the fault-free cost of every base image) and a stall detector "
    "(20000 consecutive empty reads); a loop that performs no I/O would only hit the wall-clock backstop",
    "documented outcomes: BeaconConfig | ValueError (from_*), XorEncodedFile | ValueError, Optional/tuple values of the "
    "pe helpers, list of ArtifactKitPayload, HttpRequest/HttpResponse | ValueError (subclasses of ValueError count as ValueError)",
    "inputs with long runs of ff ff ff in the first KiB are avoided by the seeded generator: they are legal but "
    "make XorEncoded detection quadratic (minutes), which is a cost, not a hang",
]
REAL = ["beacon.BeaconConfig.from_bytes/from_file/from_path", "xordecode.XorEncodedFile.from_file", "pe.find_mz_offset",
        "pe.find_architecture", "pe.find_compile_stamps", "pe.find_magic_mz", "pe.find_magic_pe",
        "pe.find_stage_prepend_append", "artifact.iter_artifactkit_payloads", "c2.parse_raw_http",
        "guardrails.iter_guardrail_configs_with_beacon", "beacon.iter_settings"]
STUB = ["storage device (SimFile / scratch file)", "payload builder", "storage fault injector"]
EXHAUSTIVE = {"quick": False, "thorough": True}
EXHAUSTIVE_SCOPE = ("thorough: the systematic grid (all mapped truncations, crafted field values and single-bit flips of "
                    "mapped header structures) is enumerated completely for each of the 9 base images; the seeded "
                    "multi-fault population and the choice of base images are sampled")

ENTRIES = ["from_bytes", "from_bytes_all", "from_file", "from_path", "xor_from_file", "xor_from_path", "find_mz_offset",
           "find_architecture", "find_compile_stamps", "find_magic_mz", "find_magic_pe", "find_stage_prepend_append",
           "artifactkit", "parse_raw_http"]

SAMPLES = ["124552cf674b362e0c916ab79b9e7a56", "1897a6cdf17271807bd6ec7c60fffea3", "37882262c9b5e971067fd989b26afe28",
           "3fdf92571d10485b05904e35c635c655", "4f571c0bc97c20eefc58fa3faf32148d", "5a197a8bb628a2555f5a86c51b85abd7",
           "a1573fe60c863ed40fffe54d377b393a"]
_sample_cache = {}


def load_sample(name: str) -> bytes:
    if name not in _sample_cache:
        import dissect.cobaltstrike as m
        root = os.path.dirname(os.path.dirname(os.path.abspath(list(m.__path__)[0])))
        p = os.path.join(root, "tests", "beacons", name + ".bin.zip")
        if not os.path.exists(p):
            p = os.path.join("/repo/tests/beacons", name + ".bin.zip")
        with zipfile.ZipFile(p) as zf:
            _sample_cache[name] = zf.read(name + ".bin", pwd=b"dissect.cobaltstrike")
    return _sample_cache[name]


# ------------------------------------------------------------------------------------------- base images

_UA_EDGE = [[1, "short", 0], [2, "short", 80], [9, "ptr", hx(b"U" * 128)], [3, "int", 5000]]
_CFG = [[1, "short", 8], [2, "short", 443], [3, "int", 60000], [5, "short", 10],
        [8, "ptr", hx(b"c2.example.com,/load".ljust(256, b"\x00"))], [9, "ptr", hx(b"Mozilla/5.0".ljust(128, b"\x00"))],
        [10, "ptr", hx(b"/submit.php".ljust(64, b"\x00"))], [26, "ptr", hx(b"GET".ljust(16, b"\x00"))],
        [37, "int", 305419896]]
_PE86 = {"arch": "x86", "e_lfanew": 128, "compile": 0x5F000001, "export": 0x5F100002, "text": 16, "seed": 11,
         "prepend": 0, "append": ""}
_PE64 = {"arch": "x64", "e_lfanew": 200, "compile": 0x60000001, "export": None, "text": 16, "seed": 12, "prepend": 5,
         "append": hx(b"APPENDED")}
_GUARD = {"at": 300, "settings": _CFG, "env_key": hx(b"desktop-r4vgq8o"),
          "guard": [[5, "short", 2], [6, "short", 2], [8, "int", 4]]}

BASES = [
    {"name": "raw_ua", "container": "raw", "size": 4500, "filler": {"kind": "random", "seed": 1},
     "blocks": [{"key": 0x2E, "at": 100, "settings": _UA_EDGE, "pad": "min"}]},
    {"name": "pe86", "container": "pe", "size": 4200, "filler": {"kind": "zeros", "seed": 2},
     "blocks": [{"key": 0x69, "at": 64, "settings": _CFG, "pad": "full"}], "pe": _PE86},
    {"name": "pe64", "container": "pe", "size": 4200, "filler": {"kind": "random", "seed": 3},
     "blocks": [{"key": 0x2E, "at": 10, "settings": _CFG, "pad": "full"}], "pe": _PE64},
    {"name": "xorpe", "container": "xorpe", "size": 4200, "filler": {"kind": "zeros", "seed": 4},
     "blocks": [{"key": 0x2E, "at": 32, "settings": _CFG, "pad": "full"}], "pe": _PE86,
     "xor": {"nonce": "a1b2c3d4", "stub": hx(b"\xfc\xe8" + bytes(range(1, 60)) + b"\xff\xff\xff")}},
    {"name": "xorpe_key0", "container": "xorpe", "size": 4200, "filler": {"kind": "random", "seed": 8},
     "blocks": [{"key": 0x00, "at": 48, "settings": _CFG, "pad": "full"}], "pe": _PE64,
     "xor": {"nonce": "0badf00d", "stub": hx(b"\xe8" + bytes(range(2, 40)) + b"\xff\xff\xff")}},
    {"name": "guard_raw", "container": "raw", "size": 300, "filler": {"kind": "random", "seed": 5}, "guards": [_GUARD]},
    {"name": "guard_xorpe", "container": "xorpe", "size": 64, "filler": {"kind": "random", "seed": 6},
     "guards": [dict(_GUARD, at=16)], "pe": _PE64,
     "xor": {"nonce": "01020304", "stub": hx(b"\x90" * 20 + b"\xff\xff\xff")}},
    {"name": "artifact", "container": "raw", "size": 400, "filler": {"kind": "random", "seed": 7},
     "artifacts": [{"at": 40, "file_at": 40, "payload": hx(b"PAYLOAD-ONE-0123456789"), "key": "11223344"},
                   {"at": 200, "file_at": 200, "payload": hx(b"\x00" * 40), "key": "00000000"}]},
]
HTTP_BASES = [
    ("http_req", b"GET /load?id=%41%42&x=y+z HTTP/1.1\r\nHost: c2.example.com\r\nCookie: a=b: c\r\nAccept: */*\r\n\r\nbody\r\n\r\n\x00more"),
    ("http_resp", b"HTTP/1.1 200 OK\r\nContent-Type: application/octet-stream\r\nContent-Length: 4\r\n\r\n\x00\x01\r\n"),
]


def base_image(base):
    """-> (raw bytes, plain bytes or None, layout of the plain image, nonce_offset or None)"""
    if isinstance(base, dict) and base.get("kind") == "sample":
        return load_sample(base["name"]), None, {"end": len(load_sample(base["name"]))}, None
    if isinstance(base, dict) and base.get("kind") == "garbage":
        style, n, seed = base["style"], base["size"], base["seed"]
        if style == "random":
            b = builder.prng_bytes(seed, n)
        elif style == "zeros":
            b = bytes(n)
        elif style == "small":
            b = bytes((x % 4) for x in builder.prng_bytes(seed, n))
        elif style == "mz":
            b = bytearray(builder.prng_bytes(seed, n))
            for j in range(0, max(0, n - 70), 61):
                b[j:j + 2] = b"MZ"
                if j + 64 <= n:
                    struct.pack_into("<i", b, j + 60, (seed + j) % 300)
            b = bytes(b)
        else:
            b = (b"POST /x HTTP/1.1\r\nA: b\r\n\r\n" + builder.prng_bytes(seed, n))[:n]
        return b, None, {"end": len(b)}, None
    if isinstance(base, dict) and base.get("kind") == "literal":
        b = unhx(base["data"])
        return b, None, {"end": len(b)}, None
    if isinstance(base, dict) and base.get("kind") == "http":
        b = dict(HTTP_BASES)[base["name"]]
        return b, None, {"start_line_end": b.index(b"\r\n"), "headers_end": b.index(b"\r\n\r\n"), "end": len(b)}, None
    plain, lay = images.build_plain(base)
    if base["container"] == "xorpe":
        x = base["xor"]
        raw, no = builder.xorencode(plain, unhx(x["nonce"]), unhx(x["stub"]))
        return raw, plain, lay, no
    return plain, None, lay, None


def apply_faults(base, faults):
    raw, plain, lay, no = base_image(base)
    pf = [f for f in faults if f.get("stage") == "plain"]
    if pf and plain is not None:
        p = bytearray(plain)
        for f in pf:
            p = _apply(p, f)
        x = base["xor"]
        raw, no = builder.xorencode(bytes(p), unhx(x["nonce"]), unhx(x["stub"]))
    elif pf:
        p = bytearray(raw)
        for f in pf:
            p = _apply(p, f)
        raw = bytes(p)
    r = bytearray(raw)
    for f in faults:
        if f.get("stage") != "plain":
            r = _apply(r, f)
    return bytes(r)


def _apply(b: bytearray, f) -> bytearray:
    k = f["kind"]
    if k == "truncate":
        del b[max(0, f["at"]):]
    elif k == "flip":
        if 0 <= f["at"] < len(b):
            b[f["at"]] ^= f["mask"] & 0xFF
    elif k == "overwrite":
        d = unhx(f["data"])
        at = f["at"]
        if 0 <= at <= len(b):
            b[at:at + len(d)] = d
    elif k == "zero_tail":
        at = max(0, f["at"])
        b[at:] = bytes(len(b) - at) if at < len(b) else b""
    elif k == "append":
        b += unhx(f["data"])
    elif k == "splice":
        other = apply_faults(f["other"], [])
        if "cut_to" in f:
            return bytearray(other[f["a"]:f["b"]] + bytes(b[f["cut_to"]:]))
        b = bytearray(bytes(b[:f["at"]]) + other[f["a"]:f["b"]] + bytes(b[f["at"]:] if f.get("insert") else b[f["at"] + (f["b"] - f["a"]):]))
    else:
        raise core.HarnessError(f"unknown fault kind {k}")
    return b


# ------------------------------------------------------------------------------------------- systematic grid

def _u16(v):
    return hx(struct.pack("<H", v & 0xFFFF))


def _u32(v):
    return hx(struct.pack("<I", v & 0xFFFFFFFF))


def crafted_for(base):
    """[(description, fault)] — crafted structure fields, aimed through the builder's map (plain stage)."""
    _, plain, lay, _ = base_image(base)
    img = plain if plain is not None else base_image(base)[0]
    end = lay["end"]
    out = []

    def ow(desc, at, data):
        out.append((desc, {"kind": "overwrite", "at": at, "data": data, "stage": "plain"}))

    if "pe.dos" in lay:
        dos = lay["pe.dos"]
        for v in (0, -1, 1, 63, 1023, 1024, end - dos - 5, end - dos - 24, 0x7FFFFFFF, -2147483648):
            ow(f"e_lfanew={v}", dos + 0x3C, hx(struct.pack("<i", max(-2 ** 31, min(2 ** 31 - 1, v)))))
        for v in (0, 1, 2, 4, 96, 0xFFFF):
            ow(f"NumberOfSections={v}", lay["pe.nsections"], _u16(v))
        for v in (0, 0x0200, 0x8664, 0x014C, 0xFFFF):
            ow(f"Machine={v:#x}", lay["pe.machine"], _u16(v))
        for v in (0, 1, 0x1000, 0x1FFF, 0x2000, 0x2FFF, 0x3000, 0x3FFF, 0x7FFFFFFF, 0xFFFFFFFF):
            ow(f"export_rva={v:#x}", lay["pe.export_dd"], _u32(v))
        for v in (0, 1, end, 0x7FFFFFFF, 0xFFFFFFFF):
            ow(f"SizeOfHeaders={v:#x}", lay["pe.size_of_headers"], _u32(v))
        sect = lay["pe.sections"]
        for si in range(3):
            for v in (0, end - 1, end, end - 39, 0x7FFFFFFF, 0xFFFFFFFF):
                ow(f"section{si}.PointerToRawData={v:#x}", sect + 40 * si + 20, _u32(v))
            for v in (0, 0xFFFFFFFF, 0x7FFFFFFF):
                ow(f"section{si}.SizeOfRawData={v:#x}", sect + 40 * si + 16, _u32(v))
                ow(f"section{si}.VirtualSize={v:#x}", sect + 40 * si + 8, _u32(v))
                ow(f"section{si}.VirtualAddress={v:#x}", sect + 40 * si + 12, _u32(v))
        # every dword of the optional header (alignments, sizes, entry point, data directory count, ...) zeroed: fields that
        # are harmless as long as they hold their usual value and become divisors / counts / offsets when used
        for off in range(lay["pe.opt_hdr"], lay["pe.sections"] - 3, 4):
            ow(f"optional_header+{off - lay['pe.opt_hdr']:#x}=0", off, _u32(0))
        for off in range(lay["pe.opt_hdr"] + 32, min(lay["pe.opt_hdr"] + 44, lay["pe.sections"] - 3), 4):
            ow(f"optional_header+{off - lay['pe.opt_hdr']:#x}=ffffffff", off, _u32(0xFFFFFFFF))
        # export directory RVA pointing at the very end of .rdata raw data at EOF: make .rdata the last thing in the file
        out.append(("export dir cut by EOF", {"kind": "truncate", "at": lay["pe.export_dir"] + 20, "stage": "plain"}))
    for i, blk in enumerate(base.get("blocks", [])):
        key = blk["key"]
        for j in range(min(3, len(blk["settings"]))):
            rec = lay[f"block{i}.rec{j}"]
            for v in (0, 1, 0x80, 0x0FFF, 0x1000, 0xFFFF):
                ow(f"block{i}.rec{j}.length={v:#x}", rec + 4, hx(builder.xor1(struct.pack(">H", v), key)))
            for v in (0, 4, 0xFFFF):
                ow(f"block{i}.rec{j}.type={v}", rec + 2, hx(builder.xor1(struct.pack(">H", v), key)))
            for v in (0, 9, 36, 0xFFFF):
                ow(f"block{i}.rec{j}.index={v}", rec, hx(builder.xor1(struct.pack(">H", v), key)))
        # User-Agent of 128 non-NUL bytes running to EOF without any NUL
        ua = builder.xor1(struct.pack(">HHH", 9, 3, 128) + b"A" * 4000, key)
        out.append((f"block{i}: UA 128 bytes, no NUL until EOF",
                    {"kind": "overwrite", "at": lay[f"block{i}.rec1"], "data": hx(ua), "stage": "plain"}))
        out.append((f"block{i}: no terminator", {"kind": "overwrite", "at": lay[f"block{i}.end"] - 2,
                                                 "data": hx(builder.xor1(b"\x00\x07\x00\x03\xff\xff", key)), "stage": "plain"}))
    for i, g in enumerate(base.get("guards", [])):
        cfg, gc = lay[f"guard{i}.cfg"], lay[f"guard{i}.guardcfg"]
        area = img[cfg:cfg + 8192]
        # the same protected area re-planted at the very start of the file: marker at offset < 6138
        for at in (0, 1, 100, 6137):
            out.append((f"guard{i}: marker+guardcfg copied to offset {at}",
                        {"kind": "overwrite", "at": at, "data": hx(area[6138:6138 + 2060]), "stage": "plain"}))
        # guard configuration without terminator: unmasked guard config all 0x41 records
        rev = area[:6144][::-1]
        noterm = bytes(0x41 ^ 0x8A ^ rev[k] for k in range(2048))
        first6 = area[6144:6150]
        out.append((f"guard{i}: guard config without terminator",
                    {"kind": "overwrite", "at": gc + 6, "data": hx(noterm[6:]), "stage": "plain"}))
        for v in (0, 0xFFFF, 0x07FA, 0x0800):
            ln = bytes(a ^ b for a, b in zip(struct.pack(">H", v), bytes(x ^ 0x8A for x in rev[4:6])))
            out.append((f"guard{i}: first guard setting length={v:#x}", {"kind": "overwrite", "at": gc + 4, "data": hx(ln),
                                                                        "stage": "plain"}))
        # the checksum setting (last guard setting) with a length field of 0..3: its value is read as a 32-bit number
        off = 0
        for o_, t_, _v in g["guard"]:
            off += 6 + (2 if t_ == "short" else 4)
        for v in (0, 1, 2, 3, 5):
            ln = bytes(a ^ b for a, b in zip(struct.pack(">H", v), bytes(x ^ 0x8A for x in rev[off + 4:off + 6])))
            out.append((f"guard{i}: checksum setting length={v}", {"kind": "overwrite", "at": gc + off + 4, "data": hx(ln), "stage": "plain"}))
        # the masked configuration area replaced by constant / short-period bytes (what a wiped or spliced image has there):
        # the key search sees one single distinct n-gram
        for nm, pat in (("00", b"\x00"), ("41", b"A"), ("abc", b"abc"), ("0102", b"\x01\x02"), ("fe", b"\xfe")):
            newarea = (pat * 6144)[:6144]
            plain_guard = bytes(m_ ^ r_ ^ 0x8A for m_, r_ in zip(area[6144:6144 + 2048], rev[:2048]))
            newguard = bytes(g_ ^ 0x8A ^ r_ for g_, r_ in zip(plain_guard, newarea[::-1][:2048]))   # (mask = reversed config area)
            out.append((f"guard{i}: masked config area filled with {nm}",
                        {"kind": "overwrite", "at": cfg, "data": hx(newarea + newguard), "stage": "plain"}))
        out.append((f"guard{i}: truncated inside guard config", {"kind": "truncate", "at": gc + 9, "stage": "plain"}))
        out.append((f"guard{i}: truncated inside masked config", {"kind": "truncate", "at": cfg + 3000, "stage": "plain"}))
    for i, a in enumerate(base.get("artifacts", [])):
        at = lay[f"artifact{i}"]
        for v in (0, 1, 0x7FFFFFFF, 0xFFFFFFFF):
            ow(f"artifact{i}.size={v:#x}", at + 4, _u32(v))
        out.append((f"artifact{i}: header cut by EOF", {"kind": "truncate", "at": at + 6, "stage": "plain"}))
    if base.get("container") == "xorpe":
        _, _, _, no = base_image(base)
        for v in ("00000000", "ffffffff", "41414141"):
            out.append((f"nonce={v}", {"kind": "overwrite", "at": no, "data": v}))
            out.append((f"size field={v}", {"kind": "overwrite", "at": no + 4, "data": v}))
    if base.get("kind") == "http":
        b = base_image(base)[0]
        h0 = lay["start_line_end"] + 2      # first byte of the first header line
        for desc, data in (("first header line starts with a space (obs-fold)", b" "), ("first header line starts with a tab", b"\t"),
                           ("first header line is empty", b"\r\n"), ("first header line has no colon", b"nocolonhere\r\n"),
                           ("header line of only ': '", b": \r\n"), ("NUL in header name", b"\x00"),
                           ("bare LF separators", b"\n\n"), ("lone CR", b"\r")):
            out.append((desc, {"kind": "overwrite", "at": h0, "data": hx(data + b[h0:h0 + 4]), "stage": "plain"}))
            out.append((desc + " (inserted)", {"kind": "splice", "other": {"kind": "literal", "data": hx(data)}, "a": 0, "b": len(data),
                                               "at": h0, "insert": True}))
        for line in (b"", b"GET", b"GET /x", b"GET /x HTTP/1.1 extra", b"HTTP/1.1", b"HTTP/1.1 200", b"HTTP/1.1 abc OK",
                     b"HTTP/1.1 200 OK extra", b"http/1.1 9999999999999999999999 x", b"HTTP/1.1 \xff\xfe OK", b"\xff\xfe /x HTTP/1.1",
                     b"GET /x?\xff=%zz&a HTTP/1.1", b"GET //[::1/x HTTP/1.1", b"GET http://[/x HTTP/1.1", b" ", b"\r", b"HTTP/"):
            out.append((f"start line {line!r}", {"kind": "splice", "other": {"kind": "literal", "data": hx(line)}, "a": 0,
                                                 "b": len(line), "at": 0, "cut_to": lay["start_line_end"]}))
    return out


def flip_ranges(base):
    _, plain, lay, no = base_image(base)
    r = []
    if "pe.dos" in lay:
        r += [("plain", lay["pe.dos"], 64), ("plain", lay["pe.pe_sig"], 4 + 20), ("plain", lay["pe.opt_hdr"], lay["pe.sections"] - lay["pe.opt_hdr"]),
              ("plain", lay["pe.sections"], 120)]
        if base["pe"]["export"] is not None:
            r.append(("plain", lay["pe.export_dir"], 40))
    for i, blk in enumerate(base.get("blocks", [])):
        r.append(("plain", lay[f"block{i}"], min(40, lay[f"block{i}.end"] - lay[f"block{i}"])))
    for i, _ in enumerate(base.get("guards", [])):
        r.append(("plain", lay[f"guard{i}.marker"], 12 + 12))
    for i, _ in enumerate(base.get("artifacts", [])):
        r.append(("plain", lay[f"artifact{i}"], 20))
    if no is not None:
        r.append(("raw", no - 3, 3 + 8 + 8))
    if base.get("kind") == "http":
        r.append(("raw", 0, lay["headers_end"] + 4))
    return r


_SYS_CACHE = {}


def _all_bases():
    return [dict(b) for b in BASES] + [{"kind": "http", "name": n} for n, _ in HTTP_BASES]


def _sys_list(tier):
    if tier in _SYS_CACHE:
        return _SYS_CACHE[tier]
    out = []
    for bi, base in enumerate(_all_bases()):
        raw, plain, lay, no = base_image(base)
        # truncations
        cuts = set()
        shift = (no + 8) if no is not None else 0
        for k, v in lay.items():
            for d in (-1, 0, 1):
                cuts.add(v + shift + d)
        spread = 256 if tier == "thorough" else 40
        for k in range(spread):
            cuts.add(len(raw) * k // spread)
        if no is not None:
            cuts |= {no - 1, no, no + 1, no + 4, no + 7, no + 8, no + 9}
            # decoded length = a multiple of the read size plus 1..3 bytes (a last, partial dword all by itself)
            for m in (4096, 8192):
                for k in range(1, (len(raw) - no - 8) // m + 1):
                    cuts |= {no + 8 + m * k + 1, no + 8 + m * k + 2, no + 8 + m * k + 3}
        for c in sorted(x for x in cuts if 0 <= x <= len(raw)):
            out.append((bi, [{"kind": "truncate", "at": c}], "truncate"))
        for desc, f in crafted_for(base):
            out.append((bi, [f], "crafted: " + desc))
        bits = range(8) if tier == "thorough" else None
        for stage, start, length in flip_ranges(base):
            for off in range(start, start + length):
                if bits is None and off % 3:
                    continue
                for bit in (bits if bits is not None else [(off * 5 + 3) % 8]):
                    f = {"kind": "flip", "at": off, "mask": 1 << bit}
                    if stage == "plain":
                        f["stage"] = "plain"
                    out.append((bi, [f], "flip"))
    _SYS_CACHE[tier] = out
    return out


def systematic_count(tier):
    return len(_sys_list(tier))


def systematic_plan(tier, index):
    bi, faults, desc = _sys_list(tier)[index]
    return {"base": _all_bases()[bi], "faults": faults, "desc": desc, "B": 8192}


# ------------------------------------------------------------------------------------------- seeded generation

def _gen_base(rng):
    r = rng.random()
    if r < 0.12:
        return {"kind": "sample", "name": rng.choice(SAMPLES)}
    if r < 0.27:
        return {"kind": "garbage", "style": rng.choice(["random", "zeros", "small", "mz", "http"]),
                "size": rng.choice([0, 1, 2, 5, 7, 8, 63, 64, 65, 100, 1024, 5000]), "seed": rng.getrandbits(24)}
    if r < 0.35:
        return {"kind": "http", "name": rng.choice(HTTP_BASES)[0]}
    return dict(rng.choice(BASES))


def _gen_fault(rng, base, raw_len, lay, no):
    k = rng.choice(["truncate", "truncate", "flip", "flip", "overwrite", "crafted", "crafted", "zero_tail", "append", "splice"])
    anchors = sorted(set(lay.values())) or [0]
    shift = (no + 8) if no is not None else 0
    if k == "truncate":
        at = rng.choice([rng.choice(anchors) + shift + rng.choice([-1, 0, 1, 2, 5]), rng.randint(0, raw_len)])
        return {"kind": "truncate", "at": max(0, at)}
    if k == "flip":
        at = rng.choice([rng.choice(anchors) + shift + rng.randint(0, 40), rng.randint(0, max(0, raw_len - 1))])
        return {"kind": "flip", "at": at, "mask": rng.choice([1, 2, 4, 8, 16, 32, 64, 128, 255, rng.getrandbits(8) or 1])}
    if k == "overwrite":
        at = rng.choice([rng.choice(anchors) + rng.randint(0, 40), rng.randint(0, max(0, raw_len - 1))])
        n = rng.choice([1, 2, 4, 8, 64])
        data = rng.choice([bytes(n), b"\xfe" * n, bytes(rng.getrandbits(8) for _ in range(n)), b"\x7f\xff\xff\xff"[:n]])
        return {"kind": "overwrite", "at": at, "data": hx(data), "stage": "plain"}
    if k == "crafted" and isinstance(base, dict) and base.get("kind") not in ("sample", "garbage"):
        c = crafted_for(base)
        if c:
            return rng.choice(c)[1]
    if k == "zero_tail":
        return {"kind": "zero_tail", "at": rng.randint(0, raw_len)}
    if k == "append":
        n = rng.choice([1, 7, 100, 5000])
        return {"kind": "append", "data": hx(bytes(n) if rng.random() < 0.3 else builder.prng_bytes(rng.getrandbits(20), n))}
    if k == "splice":
        other = dict(rng.choice(BASES))
        olen = len(base_image(other)[0])
        a = rng.randint(0, olen)
        b = min(olen, a + rng.choice([16, 200, 3000, 9000]))
        return {"kind": "splice", "other": other, "a": a, "b": b, "at": rng.randint(0, raw_len), "insert": rng.random() < 0.5}
    return {"kind": "truncate", "at": rng.randint(0, raw_len)}


def generate(rng, tier, index):
    base = _gen_base(rng)
    raw, plain, lay, no = base_image(base)
    faults = [_gen_fault(rng, base, len(raw), lay, no) for _ in range(rng.choice([0, 1, 1, 1, 2, 2, 3]))]
    return {"base": base, "faults": faults, "B": rng.choice([8192, 8192, 8192, 4096, 1000, 64])}


# ------------------------------------------------------------------------------------------- execution

def _innermost_repo_frame(tb) -> str:
    name = "?"
    for fs in traceback.extract_tb(tb):
        if "dissect/cobaltstrike" in fs.filename.replace("\\", "/"):
            name = f"{os.path.basename(fs.filename)}:{fs.name}"
    return name


_SCRATCH = None


def _scratch_dir():
    global _SCRATCH
    if _SCRATCH is None or not os.path.isdir(_SCRATCH):
        base = "/dev/shm" if os.path.isdir("/dev/shm") and os.access("/dev/shm", os.W_OK) else None
        _SCRATCH = tempfile.mkdtemp(prefix="dst-c08-", dir=base)
        import atexit
        import shutil
        atexit.register(shutil.rmtree, _SCRATCH, True)
    return _SCRATCH


def execute(plan: dict) -> Result:
    from dissect.cobaltstrike import artifact, pe
    from dissect.cobaltstrike.beacon import BeaconConfig
    from dissect.cobaltstrike.c2 import HttpRequest, HttpResponse, parse_raw_http
    from dissect.cobaltstrike.xordecode import XorEncodedFile

    res = Result()
    base = plan["base"]
    faults = plan["faults"]
    img = apply_faults(base, faults)
    B = plan.get("B", 8192)
    big = base.get("kind") == "sample"
    entries = plan.get("entries") or ENTRIES
    res.cases = 0
    if big:
        res.probes["real_sample_base"] += 1
    if base.get("kind") == "http":
        res.probes["http_shaped"] += 1
    if any(f["kind"] == "splice" for f in faults):
        res.probes["splice"] += 1
    limit = max(6_000_000, 3000 * len(img))
    path = None

    def check(entry, fn, ok_types, allow_none=False):
        budget = Budget(limit)
        res.cases += 1
        with IoSeam(buffer_size=B, budget=budget) as seam:
            try:
                val = fn(seam)
                outcome = type(val).__name__
                if val is None and not allow_none:
                    res.violate(("C08", entry, "undocumented_result", "None"), f"{entry} returned None")
                elif val is not None and not isinstance(val, ok_types):
                    res.violate(("C08", entry, "undocumented_result", type(val).__name__),
                                f"{entry} returned {type(val).__name__}")
            except ValueError as e:
                # the property allows "the documented ValueError" and forbids every *other* type; ValueError is
                # therefore accepted from every entry point (counted per entry for the record)
                res.extra["valueerror:" + entry] += 1
                outcome = "ValueError"
                val = None
            except ReadBudgetExceeded as e:
                res.violate(("C08", entry, "no_termination", _innermost_repo_frame(e.__traceback__)),
                            f"{entry} did not terminate: {e} in {_innermost_repo_frame(e.__traceback__)}; faults={faults}")
                outcome = "hang"
                val = None
            except Exception as e:
                res.violate(("C08", entry, "exception", type(e).__name__, _innermost_repo_frame(e.__traceback__)),
                            f"{entry} raised {type(e).__name__}: {e!r:.200} in {_innermost_repo_frame(e.__traceback__)}; "
                            f"base={base.get('name') or base.get('kind')} faults={str(faults):.300}")
                outcome = "exc:" + type(e).__name__
                val = None
        res.log.log("entry", entry, outcome, budget.used)
        return val

    try:
        for entry in entries:
            if entry == "from_bytes":
                bc = check(entry, lambda s: BeaconConfig.from_bytes(img), BeaconConfig)
                if bc is not None:
                    res.probes["config_still_found"] += 1
                    res.nontrivial = True
                    if bc.guardrails:
                        res.probes["guard_marker_found"] += 1
                    if any(st.index.value == 9 and st.length == 0x80 and len(st.value) > 0x80 for st in bc.settings_tuple):
                        res.probes["ua_continuation_entered"] += 1
            elif entry == "from_bytes_all":
                if len(img) <= 7000:
                    check(entry, lambda s: BeaconConfig.from_bytes(img, all_xor_keys=True), BeaconConfig)
            elif entry == "from_file":
                def f(s):
                    fh = s.file(img)
                    fh.seek(len(img) // 2)
                    return BeaconConfig.from_file(fh, xor_keys=[b"\x69", b"\x2e", b"\x00", b"\xaf", b"\xcc"])
                check(entry, f, BeaconConfig)
            elif entry == "from_path":
                path = os.path.join(_scratch_dir(), f"img-{os.getpid()}.bin")
                with open(path, "wb") as fo:
                    fo.write(img)
                check(entry, lambda s: BeaconConfig.from_path(path), BeaconConfig)
            elif entry == "xor_from_file":
                xf = check(entry, lambda s: XorEncodedFile.from_file(s.file(img)), XorEncodedFile)
                if xf is not None:
                    res.probes["xorencoded_detected"] += 1
                    res.nontrivial = True
            elif entry == "xor_from_path":
                if len(img) <= 60000:
                    path = os.path.join(_scratch_dir(), f"img-{os.getpid()}.bin")
                    with open(path, "wb") as fo:
                        fo.write(img)

                    def fx(s):
                        xf = XorEncodedFile.from_path(path)
                        try:
                            xf.fh.close()
                        except Exception:
                            pass
                        return xf
                    check(entry, fx, XorEncodedFile)
            elif entry == "find_mz_offset":
                v = check(entry, lambda s: pe.find_mz_offset(s.file(img)), int, allow_none=True)
                if v is not None:
                    res.probes["mz_found"] += 1
                    res.nontrivial = True
            elif entry == "find_architecture":
                check(entry, lambda s: pe.find_architecture(s.file(img)), str, allow_none=True)
                # (documented: start_offset=None searches from the current file position - here the start of the file)
                check(entry + ":from_current_position", lambda s: pe.find_architecture(s.file(img), start_offset=None), str, allow_none=True)
            elif entry == "find_compile_stamps":
                v = check(entry, lambda s: pe.find_compile_stamps(s.file(img)), tuple)
                check(entry + ":from_current_position", lambda s: pe.find_compile_stamps(s.file(img), start_offset=None), tuple)
                if v and v[1] is not None:
                    res.probes["export_rva_in_section"] += 1
            elif entry == "find_magic_mz":
                check(entry, lambda s: pe.find_magic_mz(s.file(img)), bytes, allow_none=True)
                # (documented: start_offset=None searches from the current file position - here the start of the file)
                check(entry + ":from_current_position", lambda s: pe.find_magic_mz(s.file(img), start_offset=None), bytes, allow_none=True)
            elif entry == "find_magic_pe":
                check(entry, lambda s: pe.find_magic_pe(s.file(img)), bytes, allow_none=True)
                # (documented: start_offset=None searches from the current file position - here the start of the file)
                check(entry + ":from_current_position", lambda s: pe.find_magic_pe(s.file(img), start_offset=None), bytes, allow_none=True)
            elif entry == "find_stage_prepend_append":
                check(entry, lambda s: pe.find_stage_prepend_append(s.file(img)), tuple)
                # (documented: start_offset=None searches from the current file position - here the start of the file)
                check(entry + ":from_current_position", lambda s: pe.find_stage_prepend_append(s.file(img), start_offset=None), tuple)
            elif entry == "artifactkit":
                if len(img) <= 50000:
                    v = check(entry, lambda s: list(artifact.iter_artifactkit_payloads(s.file(img))), list)
                    if v:
                        res.probes["artifact_header_matched"] += 1
                        res.nontrivial = True
            elif entry == "parse_raw_http":
                v = check(entry, lambda s: parse_raw_http(img[:100000]), (HttpRequest, HttpResponse))
                if v is not None:
                    res.nontrivial = True
    finally:
        if path and os.path.exists(path):
            os.unlink(path)
    _eof_probes(res, base, faults)
    return res


def _eof_probes(res, base, faults):
    if not isinstance(base, dict) or base.get("kind") in ("sample", "garbage", "http", "literal"):
        return
    try:
        _, plain, lay, no = base_image(base)
    except Exception:
        return
    shift = (no + 8) if no is not None else 0
    for f in faults:
        if f["kind"] != "truncate":
            continue
        at = f["at"] - (0 if f.get("stage") == "plain" else shift)
        if "pe.dos" in lay:
            if lay["pe.dos"] < at < lay["pe.dos"] + 64:
                res.probes["eof_inside_dos_header"] += 1
            if lay["pe.file_hdr"] < at < lay["pe.file_hdr"] + 20:
                res.probes["eof_inside_file_header"] += 1
            if lay["pe.opt_hdr"] < at < lay["pe.sections"]:
                res.probes["eof_inside_optional_header"] += 1
            if lay["pe.sections"] < at < lay["pe.sections"] + 120:
                res.probes["eof_inside_section_table"] += 1
            if lay["pe.export_dir"] < at < lay["pe.export_dir"] + 40:
                res.probes["eof_inside_export_dir"] += 1
        for k, v in lay.items():
            if k.startswith("block") and ".rec" in k and v < at < v + 6:
                res.probes["eof_inside_setting"] += 1
    for f in faults:
        if f["kind"] == "overwrite" and f.get("stage") == "plain" and any(k.endswith(".cfg") for k in lay) and f["at"] < 6138 \
                and len(f.get("data", "")) > 4000:
            res.probes["guard_negative_config_offset"] += 1


# ------------------------------------------------------------------------------------------- shrinking

def candidates(plan: dict):
    yield from core.shrink_list(plan, ["faults"])
    if len(plan.get("entries") or ENTRIES) > 1:
        for e in (plan.get("entries") or ENTRIES):
            yield core._set(plan, ["entries"], [e])
    for i, f in enumerate(plan["faults"]):
        if f["kind"] in ("truncate", "zero_tail"):
            yield from core.shrink_int(plan, ["faults", i, "at"])
        if f["kind"] == "flip":
            for m in (1, 2, 4, 8, 16, 32, 64, 128):
                if f["mask"] & m and f["mask"] != m:
                    yield core._set(plan, ["faults", i, "mask"], m)
        if f["kind"] in ("overwrite", "append"):
            yield from core.shrink_hex(plan, ["faults", i, "data"], min_len=1)
    yield from core.shrink_int(plan, ["B"], toward=8192)
    if plan["base"].get("kind") == "garbage":
        yield from core.shrink_int(plan, ["base", "size"])
