"""C09 — the XorEncoded view is a faithful read-only file over the decoded bytes (World F).

Histories of seek/read/tell on one long-lived XorEncodedFile over a simulated device, against a byte-slice
model; detection (from_file) across stub / marker / size-field variants; negatives must raise ValueError.
"""
from __future__ import annotations

from dst import core
from dst.core import Result, hx, unhx
from dst.storage import builder
from dst.storage.simfile import Budget, IoSeam, ReadBudgetExceeded

ID = "C09"
RUN_WALL_S = 90    # per-run wall-clock alarm for loops that perform no I/O (see core.guarded)
LEVEL = "exploration"
RUNS = {"quick": 30000, "thorough": 400000}
CHUNK = {"quick": 50, "thorough": 200}
PROBES = ["unaligned_read_then_observe", "read_at_eof", "read_past_eof", "read0", "read_all", "seek_set", "seek_cur",
          "seek_end", "len_mod4_nonzero", "len_lt_16", "detect_marker_and_size", "detect_size_only",
          "detect_marker_only", "detect_decoy_marker", "detect_stub_ends_in_ff_run", "detect_from_path", "detect_pe_header_beyond_first_kib", "negative_rejected", "nonce_zero_byte", "head_unaligned", "first_op_without_seek", "read_without_argument",
          "constructed_with_default_offset", "stub_at_search_range_limit", "second_view_on_same_file", "second_decoder_on_another_payload"]
RULE = ("seeded plans: (a) direct construction over arbitrary plaintext (len 0..4100, every residue mod 4, many <16), "
        "nonce incl. zero bytes, stub 0-900 bytes, 1-12 histories of 1-24 seek/read/tell ops; (b) detection via "
        "from_file on stub|nonce|size|rolling-xor(PE image) with marker+size / size only / marker only variants, decoy "
        "markers, chunk knob B; (c) negatives (random bytes, plain PE, raw config block). Systematic: all ordered pairs "
        "of 23 op classes on plaintext lengths 0..13. non-trivial = history has an unaligned read followed by another "
        "observation, a read at/after EOF, or all three seek kinds; or detection run; distinct = distinct digest")
ASSUMPTIONS = [
    "no seeks to negative logical positions; the encoded region extends to EOF (no trailing bytes)",
    "read(n) only for n in {0,1,2,...,-1}; read(None) and other negatives are not generated",
    "the value returned by seek() is recorded but not part of the oracle (the property speaks of reads and the reported position, i.e. tell())",
    "underlying reader is a full-read seekable file (no short reads injected)",
    "detection domain: the documented search range (size relation at offsets 0..1023, end-of-stub marker entirely before offset 1024), decoded content starts with a PE image (MZ within the first 1024 bytes)",
]
REAL = ["xordecode.XorEncodedFile (read/seek/tell/read_nonce/from_file)", "xordecode.iter_nonce_offsets",
        "utils.iter_find_needle", "pe.find_mz_offset", "utils.xor"]
STUB = ["storage device (SimFile)", "io.DEFAULT_BUFFER_SIZE knob", "independent rolling-XOR encoder", "byte-slice file model"]

_OPS = ([["read", n] for n in (0, 1, 2, 3, 4, 5, 7, 8, 9, -1, "noarg")]
        + [["seek", o, 0] for o in (0, 1, 3, 4, 6)] + [["seek", o, 1] for o in (-1, 0, 1, 2)]
        + [["seek", o, 2] for o in (0, -1, -3)])  # 23 op classes


def _stub(rng, n, marker, decoys):
    s = bytearray(builder.prng_bytes(rng.getrandbits(30), n))
    for i, b in enumerate(s):
        if b == 0xFF:
            s[i] = 0xFE
    for _ in range(decoys):
        if n > 40:
            p = rng.randint(0, n - 20)
            s[p:p + 3] = b"\xff\xff\xff"
            s[p + 3] = 0x00
    if marker:
        s += b"\xff\xff\xff"
    return bytes(s)


def _gen_history(rng, plen, maxops=24):
    ops = []
    pos = 0
    for _ in range(rng.randint(1, maxops)):
        r = rng.random()
        if r < 0.5:
            n = rng.choice([0, 1, 1, 2, 3, 3, 4, 5, 7, 8, 9, 16, 17, plen, plen + 5, -1, "noarg", rng.randint(0, max(1, plen))])
            ops.append(["read", n])
            if n == "noarg":
                n = -1
            if pos < plen:
                pos = plen if n < 0 else min(pos + n, plen)
        elif r < 0.85:
            target = rng.choice([0, 1, 2, 3, 4, 5, plen, max(0, plen - 1), max(0, plen - 3), plen + 8,
                                 rng.randint(0, plen + 8)])
            wh = rng.choice([0, 1, 2])
            off = target if wh == 0 else target - pos if wh == 1 else target - plen
            ops.append(["seek", off, wh])
            pos = target
        elif r < 0.89:
            ops.append(["tell"])
        elif r < 0.91:
            ops.append(["badseek", -rng.choice([10 ** 6, 10 ** 9, 2 ** 40]), rng.choice([1, 2, 2])])
        elif r < 0.95:
            # another decoder over ANOTHER payload (same stub length) is used in between and stops exactly where this view
            # is positioned next: two decoders in one process share nothing
            target = rng.choice([0, 4, 8, rng.randint(0, plen + 2)])
            n = rng.choice([4, 8, 16, 3, 5, -1])
            ops.append(["other_file", target, n])
            pos = target + (max(0, min(n, plen - target)) if n >= 0 else max(0, plen - target))
        else:
            # a second view over the same underlying file object (as the extraction code creates them) is used in between:
            # the two share one cursor
            target = rng.choice([0, 1, 3, 4, 5, max(0, plen - 1), rng.randint(0, plen + 2)])
            n = rng.choice([0, 1, 3, 4, 5, 8, 9, -1])
            ops.append(["other_view", target, n])
            pos = min(plen, target + n) if (n >= 0 and target < plen) else (plen if target < plen else target)
    return ops


def generate(rng, tier, index):
    r = rng.random()
    B = rng.choice([8192, 8192, 1, 3, 7, 64, 1000, 1024, 1027, 4096])
    nonce = bytes(rng.choice([0, 0, rng.getrandbits(8), rng.getrandbits(8)]) for _ in range(4))
    if r < 0.55:
        plen = rng.choice([0, 1, 2, 3, 4, 5, 6, 7, 8, 9, 11, 12, 13, 15, 16, 17, 31, 64, 65, 66, 67, 255, 1023, 4100,
                           rng.randint(0, 4100)])
        plain = builder.prng_bytes(rng.getrandbits(30), plen)
        stub = _stub(rng, rng.choice([0, 0, 1, 5, 100, 900, rng.randint(0, 900)]), rng.random() < 0.5, 0)
        if rng.random() < 0.02:
            # a view over more than 64 KiB with single reads larger than 64 KiB (and the usual small ones)
            plen = rng.choice([65536 + 9, 70001, 131072 + 3, 140000])
            hs = []
            for _ in range(rng.randint(1, 3)):
                h = _gen_history(rng, plen, maxops=6)
                # (in front of the generated history, which assumes it starts at position 0)
                h[0:0] = [["seek", rng.choice([0, 1, 3, 4, 5]), 0], ["read", rng.choice([65537, 65540, 70000, 100000, plen - 7])], ["tell"], ["seek", 0, 0]]
                hs.append(h)
            return {"mode": "direct", "plain": "", "plain_gen": [rng.getrandbits(30), plen], "nonce": hx(nonce), "stub": hx(stub), "B": rng.choice([8192, 4096, 1000]),
                    "initial_seek": True, "default_offset_arg": False, "size_delta": 0, "histories": hs}
        return {"mode": "direct", "plain": hx(plain), "nonce": hx(nonce), "stub": hx(stub), "B": B,
                # how the view is obtained and used: the constructor (default nonce_offset when there is no stub) and
                # whether the caller seeks before the first operation or relies on the initial position 0
                "initial_seek": rng.random() < 0.5, "default_offset_arg": rng.random() < 0.5,
                # the size field is not consulted by the constructor: any value is legal there
                "size_delta": rng.choice([0, 0, 1, -1, 0x01000000, 0x7F000000, rng.getrandbits(32)]),
                "histories": [_gen_history(rng, plen) for _ in range(rng.randint(1, 12))]}
    if r < 0.85:
        variant = rng.choice(["both", "both", "size", "marker"])
        # (e_lfanew anywhere in the accepted range 0 < e_lfanew < 1024, so the PE header may lie beyond the first KiB)
        pe = {"arch": rng.choice(["x86", "x64"]), "e_lfanew": rng.choice([64, 128, 200, 248, rng.randint(64, 600), rng.randint(64, 1023),
                                                                       rng.choice([1000, 1004, 1020, 1023])]),
              "prepend": rng.choice([0, 0, 1, 2, 3, 7, rng.randint(0, 300)]), "extra": rng.randint(0, 7),
              "seed": rng.getrandbits(20), "text": rng.choice([16, 512])}
        decoys = rng.choice([0, 0, 1, 2])
        # the documented search range (maxrange=1024): size relation tried at offsets 0..1023, end-of-stub marker has to lie
        # entirely before offset 1024 - stubs right up to those limits are in the domain
        if variant == "size":
            n = rng.choice([0, 1, 12, 100, 600, 990, 1019, 1020, 1021, 1022, 1023, rng.randint(0, 1023)])
        elif variant == "marker":
            n = rng.choice([0, 1, 12, 100, 600, 990, 1017, 1018, 1019, 1020, 1021, rng.randint(0, 1021)])
        else:
            # "both": the nonce offset n+3 itself has to be within the size relation's range, otherwise it is marker-only
            n = rng.choice([0, 1, 12, 100, 600, 990, 1017, 1018, 1019, 1020, rng.randint(0, 1020)])
        stub = _stub(rng, n, variant in ("both", "marker"), decoys)
        if variant == "both" and n > 8 and rng.random() < 0.15:
            # the stub's own last bytes are ff as well (e.g. a call with a negative displacement, e8 ff ff ff ff): the marker
            # needle matches at overlapping positions and only the last one is followed by a consistent size field
            k = rng.choice([1, 1, 2, 3, 4])
            stub = stub[:n - k] + b"\xff" * k + stub[n:]
        plen_guess = 2200
        return {"mode": "detect", "variant": variant, "pe": pe, "nonce": hx(nonce), "stub": hx(stub), "B": B,
                "entry": rng.choice(["from_file", "from_file", "from_file", "from_path"]),
                "size_delta": rng.choice([1, -1, 4, 1000, -8, 0x01000000, 0x5A000000, rng.getrandbits(32) | 1]),
                "histories": [_gen_history(rng, plen_guess, maxops=10) for _ in range(rng.randint(0, 3))]}
    kind = rng.choice(["random", "plain_pe", "raw_block", "text", "empty", "short"])
    return {"mode": "negative", "kind": kind, "seed": rng.getrandbits(30), "size": rng.choice([0, 3, 7, 8, 12, 100, 2000, 5000]),
            "B": B}


def _sys_list():
    return [{"mode": "pairs", "len": L, "first": i} for L in range(0, 14) for i in range(len(_OPS))]


def systematic_count(tier):
    return len(_sys_list())


def systematic_plan(tier, index):
    return dict(_sys_list()[index])


# ------------------------------------------------------------------------------------------- execution

def _posclass(pos, plen):
    if pos >= plen:
        return "at_eof"
    if pos < 4:
        return "head" if pos else "start"
    return "aligned" if pos % 4 == 0 else "unaligned"


def _nclass(n):
    if n == "noarg":
        return "n=-1"
    return "n=-1" if n == -1 else "n=0" if n == 0 else "n%4==0" if n % 4 == 0 else "n%4!=0"


def run_history(res: Result, xf, plain: bytes, ops, tag, narrow=None, initial_seek=True, other=None, other2=None):
    """Drive one history against the byte-slice model. Returns False after the first divergence."""
    plen = len(plain)
    pos = 0
    if initial_seek:
        xf.seek(0)
    else:
        res.probes["first_op_without_seek"] += 1
    seen_unaligned = False
    kinds = set()
    for k, op in enumerate(ops):
        try:
            if op[0] == "read":
                n = op[1]
                if n == "noarg":
                    n = -1
                    res.probes["read_without_argument"] += 1
                    want = plain[pos:]
                    pc = _posclass(pos, plen)
                    got = xf.read()
                else:
                    want = plain[pos:] if n == -1 else plain[pos:pos + n]
                    pc = _posclass(pos, plen)
                    got = xf.read(n)
                t = xf.tell()
                res.log.log("read", tag, k, n, got, t)
                if seen_unaligned:
                    res.probes["unaligned_read_then_observe"] += 1
                    res.nontrivial = True
                if n == 0:
                    res.probes["read0"] += 1
                if n == -1:
                    res.probes["read_all"] += 1
                if pos >= plen:
                    res.probes["read_at_eof"] += 1
                    res.nontrivial = True
                elif n > 0 and pos + n > plen:
                    res.probes["read_past_eof"] += 1
                    res.nontrivial = True
                if 0 < pos < 4:
                    res.probes["head_unaligned"] += 1
                if got != want:
                    res.violate(("C09", "read", "data", _nclass(n), pc),
                                f"history {ops[:k + 1]} on plaintext of {plen} bytes: read({n}) at logical {pos} returned "
                                f"{got[:24].hex()}.. ({len(got)} bytes), expected {want[:24].hex()}.. ({len(want)} bytes)",
                                narrow(ops[:k + 1]) if narrow else None)
                    return False
                pos += len(want)
                if t != pos:
                    res.violate(("C09", "read", "tell", _nclass(n), pc),
                                f"history {ops[:k + 1]} on plaintext of {plen} bytes: after read({n}) returning "
                                f"{len(got)} bytes tell() == {t}, expected {pos}",
                                narrow(ops[:k + 1]) if narrow else None)
                    return False
                if (n > 0 and len(want) % 4) or pos % 4:
                    seen_unaligned = True
            elif op[0] == "seek":
                off, wh = op[1], op[2]
                target = off if wh == 0 else pos + off if wh == 1 else plen + off
                if target < 0:
                    raise core.HarnessError(f"plan seeks to negative logical position: {ops}")
                ret = xf.seek(off, wh)
                t = xf.tell()
                res.log.log("seek", tag, k, off, wh, t)
                res.extra["seek_return_is_logical" if ret == target else "seek_return_is_not_logical"] += 1
                kinds.add(wh)
                res.probes[("seek_set", "seek_cur", "seek_end")[wh]] += 1
                pos = target
                if t != pos:
                    res.violate(("C09", "seek", "tell", f"whence={wh}"),
                                f"history {ops[:k + 1]} on plaintext of {plen} bytes: after seek({off},{wh}) tell() == {t}, "
                                f"expected {pos}", narrow(ops[:k + 1]) if narrow else None)
                    return False
            elif op[0] == "badseek":
                # a seek whose target lies far before the start of the stored file itself: if the view refuses it (as a file
                # does) the refusal leaves the position where it was; if it is accepted nothing is promised and the history
                # goes on from a fresh absolute seek
                try:
                    xf.seek(op[1], op[2])
                    refused = False
                except (OSError, ValueError):
                    refused = True
                res.log.log("badseek", tag, k, op[1], op[2], refused)
                if refused:
                    res.probes["refused_seek"] += 1
                    t = xf.tell()
                    if t != pos:
                        res.violate(("C09", "seek", "position_moved_by_refused_seek", f"whence={op[2]}"),
                                    f"history {ops[:k + 1]} on plaintext of {plen} bytes: seek({op[1]},{op[2]}) was refused, tell() == {t} "
                                    f"afterwards, {pos} before", narrow(ops[:k + 1]) if narrow else None)
                        return False
                else:
                    xf.seek(pos, 0)
            elif op[0] == "other_file":
                res.probes["second_decoder_on_another_payload"] += 1
                target, n = op[1], op[2]
                if other2 is not None:
                    b, plain_b = other2()
                    b.seek(target)
                    got = b.read(n)
                    want = plain_b[target:] if n == -1 else plain_b[target:target + n]
                    if got != want:
                        res.violate(("C09", "read", "data", _nclass(n), "second_decoder"),
                                    f"history {ops[:k + 1]}: a second decoder over another payload read {got[:24].hex()}.., expected {want[:24].hex()}..",
                                    narrow(ops[:k + 1]) if narrow else None)
                        return False
                    adv = len(want)
                else:
                    adv = max(0, min(n, plen - target)) if n >= 0 else max(0, plen - target)
                # this view is then positioned where the other decoder stopped (in its own file)
                xf.seek(target + adv)
                pos = target + adv
            elif op[0] == "other_view":
                if other is None:
                    continue
                res.probes["second_view_on_same_file"] += 1
                target, n = op[1], op[2]
                b = other()
                b.seek(target)
                want = plain[target:] if n == -1 else plain[target:target + n]
                got = b.read(n)
                res.log.log("other", tag, k, target, n, got)
                if got != want:
                    res.violate(("C09", "read", "data", _nclass(n), "second_view"),
                                f"history {ops[:k + 1]}: a second view over the same file read {got[:24].hex()}.., expected {want[:24].hex()}..",
                                narrow(ops[:k + 1]) if narrow else None)
                    return False
                pos = target + len(want)
                t = xf.tell()
                if t != pos:
                    res.violate(("C09", "tell", "after_second_view"),
                                f"history {ops[:k + 1]}: the views share one cursor, tell() == {t} after the other view moved it to {pos}",
                                narrow(ops[:k + 1]) if narrow else None)
                    return False
            else:
                t = xf.tell()
                res.log.log("tell", tag, k, t)
                if t != pos:
                    res.violate(("C09", "tell", "tell"), f"history {ops[:k + 1]}: tell() == {t}, expected {pos}",
                                narrow(ops[:k + 1]) if narrow else None)
                    return False
        except ReadBudgetExceeded:
            res.violate(("C09", op[0], "no_termination"), f"history {ops[:k + 1]} did not terminate")
            return False
        except core.HarnessError:
            raise
        except Exception as e:
            res.violate(("C09", op[0], "exception", type(e).__name__), f"history {ops[:k + 1]} on plaintext of {plen} "
                        f"bytes raised {e!r}", narrow(ops[:k + 1]) if narrow else None)
            return False
    if len(kinds) == 3:
        res.nontrivial = True
    return True


def _pe_plain(pe):
    img, _ = builder.build_pe(arch=pe["arch"], e_lfanew=pe["e_lfanew"], text_size=pe["text"], filler_seed=pe["seed"],
                              data=builder.prng_bytes(pe["seed"] + 9, 40))
    pre = bytearray(builder.prng_bytes(pe["seed"] + 5, pe["prepend"]))
    return bytes(pre) + img + builder.prng_bytes(pe["seed"] + 6, pe["extra"])


def execute(plan: dict) -> Result:
    import os
    import tempfile

    from dissect.cobaltstrike.xordecode import XorEncodedFile
    res = Result()
    budget = Budget(3_000_000)
    with IoSeam(buffer_size=plan.get("B", 8192), budget=budget) as seam:
        mode = plan["mode"]
        if mode in ("direct", "pairs"):
            if mode == "pairs":
                plain = builder.prng_bytes(plan["len"] + 77, plan["len"])
                nonce, stub = b"\x5a\x00\xa5\x11", b"\x90\x90\xff\xff\xff"
                hist = [[_OPS[plan["first"]], second, ["read", -1]] for second in _OPS]
                hist = [h for h in hist if _valid(h, len(plain))]
            else:
                plain, nonce, stub = unhx(plan["plain"]), unhx(plan["nonce"]), unhx(plan["stub"])
                if plan.get("plain_gen"):
                    # a plaintext of more than 64 KiB, described by (seed, length)
                    plain = builder.prng_bytes(plan["plain_gen"][0], plan["plain_gen"][1])
                    res.probes["plaintext_over_64k"] += 1
                hist = plan["histories"]
            delta = plan.get("size_delta", 0) if mode == "direct" else 0
            raw, no = builder.xorencode(plain, nonce, stub, size_consistent=not delta, size_delta=delta)
            if len(plain) % 4:
                res.probes["len_mod4_nonzero"] += 1
            if len(plain) < 16:
                res.probes["len_lt_16"] += 1
            if 0 in nonce:
                res.probes["nonce_zero_byte"] += 1
            res.cases = len(hist)
            for hi, ops in enumerate(hist):
                fh = seam.file(raw)
                if no == 0 and plan.get("default_offset_arg"):
                    xf = XorEncodedFile(fh)
                    res.probes["constructed_with_default_offset"] += 1
                else:
                    xf = XorEncodedFile(fh, nonce_offset=no)

                def narrow(ops_prefix, plain=plain, nonce=nonce, stub=stub):
                    return {"mode": "direct", "plain": hx(plain), "nonce": hx(nonce), "stub": hx(stub),
                            "initial_seek": plan.get("initial_seek", True), "default_offset_arg": plan.get("default_offset_arg", False),
                            "size_delta": delta,
                            "B": plan.get("B", 8192), "histories": [ops_prefix], "property": ID,
                            "format": plan.get("format"), "run_seed": plan.get("run_seed"),
                            "run_index": plan.get("run_index"), "population": plan.get("population")}
                def other2(no=no, stub=stub, nonce=nonce, n_=len(plain)):
                    plain_b = builder.prng_bytes(len(stub) * 31 + n_ + 7, n_)
                    raw_b, _ = builder.xorencode(plain_b, bytes(x ^ 0x5A for x in nonce), stub)
                    return XorEncodedFile(seam.file(raw_b), nonce_offset=no), plain_b
                run_history(res, xf, plain, ops, hi, narrow, initial_seek=plan.get("initial_seek", True) if mode == "direct" else hi % 2 == 0,
                            other=lambda fh=fh, no=no: XorEncodedFile(fh, nonce_offset=no), other2=other2)
        elif mode == "detect":
            plain = _pe_plain(plan["pe"])
            nonce, stub = unhx(plan["nonce"]), unhx(plan["stub"])
            raw, no = builder.xorencode(plain, nonce, stub, size_consistent=plan["variant"] != "marker",
                                        size_delta=plan["size_delta"])
            res.nontrivial = True
            res.probes[{"both": "detect_marker_and_size", "size": "detect_size_only", "marker": "detect_marker_only"}
                       [plan["variant"]]] += 1
            if stub[:-3].find(b"\xff\xff\xff") >= 0:
                res.probes["detect_decoy_marker"] += 1
            if plan["variant"] == "both" and stub[-4:-3] == b"\xff":
                res.probes["detect_stub_ends_in_ff_run"] += 1
            if no >= 1019:
                res.probes["stub_at_search_range_limit"] += 1
            if plan["pe"]["prepend"] + plan["pe"]["e_lfanew"] + 24 > 1024:
                res.probes["detect_pe_header_beyond_first_kib"] += 1
            fh = seam.file(raw)
            fh.seek(len(raw) // 3)
            path = None
            try:
                if plan.get("entry") == "from_path":
                    # the documented convenience entry: the same view, over a file the library opens itself
                    fd, path = tempfile.mkstemp(prefix="dst-c09-")
                    with os.fdopen(fd, "wb") as f_:
                        f_.write(raw)
                    res.probes["detect_from_path"] += 1
                    xf = XorEncodedFile.from_path(path)
                else:
                    xf = XorEncodedFile.from_file(fh)
            except ReadBudgetExceeded:
                res.violate(("C09", "detect", "no_termination"), "from_file did not terminate")
                return res
            except ValueError as e:
                res.violate(("C09", "detect", "rejected", plan["variant"]),
                            f"from_file rejected a XorEncoded stage (variant {plan['variant']}, nonce offset {no}, "
                            f"stub {len(stub)} bytes, plaintext {len(plain)} bytes, B={plan.get('B')}): {e}")
                return res
            except Exception as e:
                res.violate(("C09", "detect", "exception", type(e).__name__), f"from_file raised {e!r}")
                return res
            finally:
                if path is not None:
                    os.unlink(path)      # (the open file object keeps the content readable)
            res.log.log("detect", xf.nonce_offset, no)
            if xf.nonce_offset != no:
                decoy = "decoy_marker_at_reported_offset" if raw[max(0, xf.nonce_offset - 3):xf.nonce_offset] == b"\xff\xff\xff" \
                    and xf.nonce_offset < no else "no_decoy"
                res.violate(("C09", "detect", "wrong_offset", plan["variant"], decoy),
                            f"from_file located the encoded region at {xf.nonce_offset}, builder put the nonce at {no} "
                            f"(variant {plan['variant']}: {decoy}; stub {len(stub)} bytes, B={plan.get('B')})")
                return res
            try:
                t0 = xf.tell()
            except Exception as e:
                res.violate(("C09", "detect", "exception", type(e).__name__), f"tell() after from_file raised {e!r}")
                return res
            if t0 != 0:
                res.violate(("C09", "detect", "initial_position"), f"from_file returned a view positioned at {t0}, not 0")
            for hi, ops in enumerate(plan["histories"]):
                ops = [op for op in ops]
                if _valid(ops, len(plain)):
                    ofh = xf.fh if plan.get("entry") == "from_path" else fh     # a second view over the SAME underlying file
                    run_history(res, xf, plain, ops, hi, other=lambda fh=ofh, no=no: XorEncodedFile(fh, nonce_offset=no))
        elif mode == "negative":
            kind, size, seed = plan["kind"], plan["size"], plan["seed"]
            if kind == "random":
                raw = builder.prng_bytes(seed, size)
            elif kind == "plain_pe":
                raw, _ = builder.build_pe(filler_seed=seed % 1000)
            elif kind == "raw_block":
                raw = builder.xor1(builder.encode_settings([[1, "short", 0], [2, "short", 80]]), 0x2E)
            elif kind == "text":
                raw = (b"hello world, this is not a beacon\r\n" * 200)[:size]
            elif kind == "empty":
                raw = b""
            else:
                raw = builder.prng_bytes(seed, size % 13)
            fh = seam.file(raw)
            try:
                xf = XorEncodedFile.from_file(fh)
                res.violate(("C09", "negative", "accepted", kind),
                            f"from_file accepted a non-XorEncoded input ({kind}, {len(raw)} bytes) at nonce offset "
                            f"{xf.nonce_offset}")
            except ValueError:
                res.probes["negative_rejected"] += 1
                res.log.log("negative", kind, len(raw))
            except ReadBudgetExceeded:
                res.violate(("C09", "negative", "no_termination", kind), "from_file did not terminate")
            except Exception as e:
                res.violate(("C09", "negative", "exception", type(e).__name__, kind), f"from_file raised {e!r} on {kind}")
        else:
            raise core.HarnessError("unknown mode")
    return res


def _valid(ops, plen):
    pos = 0
    for op in ops:
        if op[0] == "read":
            n = -1 if op[1] == "noarg" else op[1]
            pos = max(pos, min(plen, pos + n) if n >= 0 else plen) if pos < plen else pos
        elif op[0] == "seek":
            pos = op[1] if op[2] == 0 else pos + op[1] if op[2] == 1 else plen + op[1]
            if pos < 0:
                return False
        elif op[0] in ("other_view", "other_file"):
            n = op[2]
            pos = op[1] + (len(range(op[1], plen)) if n < 0 else max(0, min(n, plen - op[1])))
    return True


def candidates(plan: dict):
    if plan["mode"] == "direct":
        yield from core.shrink_list(plan, ["histories"], min_len=1)
        if len(plan["histories"]) == 1:
            for cand in core.shrink_list(plan, ["histories", 0], min_len=1):
                if _valid(cand["histories"][0], len(unhx(cand["plain"]))):
                    yield cand
        yield from core.shrink_hex(plan, ["stub"])
        for cand in core.shrink_hex(plan, ["plain"]):
            if all(_valid(h, len(unhx(cand["plain"]))) for h in cand["histories"]):
                yield cand
        yield from core.shrink_hex(plan, ["nonce"], min_len=4)
        yield from core.shrink_int(plan, ["B"], toward=8192)
    elif plan["mode"] == "detect":
        yield from core.shrink_list(plan, ["histories"])
        yield from core.shrink_hex(plan, ["stub"], min_len=3 if plan["variant"] != "size" else 0)
        yield from core.shrink_int(plan, ["pe", "prepend"])
        yield from core.shrink_int(plan, ["pe", "extra"])
        yield from core.shrink_int(plan, ["B"], toward=8192)
    elif plan["mode"] == "negative":
        yield from core.shrink_int(plan, ["size"])
