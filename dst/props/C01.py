"""C01 — beacon configuration extraction is exact and complete (World F).

Stored payloads (raw / PE .data / XorEncoded PE) are read by the real extractors through the simulated device
with the chunk-size knob under simulator control. Oracle: an executable reference scanner over the stored
image (decoded view first for XorEncoded stages), so accidental decoys are expected results, not alarms.
"""
from __future__ import annotations

import os
import tempfile

from dst import core
from dst.core import Result, hx, unhx
from dst.storage import builder
from dst.storage.simfile import Budget, IoSeam, ReadBudgetExceeded

ID = "C01"
RUN_WALL_S = 90    # per-run wall-clock alarm for loops that perform no I/O (see core.guarded)
LEVEL = "exploration"
RUNS = {"quick": 12000, "thorough": 200000}
CHUNK = {"quick": 40, "thorough": 200}
PROBES = ["header_straddles_chunk", "offset_0", "block_cut_by_eof", "key_00", "decoy_lower_priority_first_in_file",
          "xorencoded_B_mod4_nonzero", "all_keys_fallback_used", "custom_key_list", "expect_valueerror",
          "two_blocks_same_key", "block_in_stub_raw_view_only", "raw_stub_block_under_higher_priority_key", "from_path", "from_file_nonzero_cursor", "tiny_chunk", "container_pe",
          "container_xorpe", "near_miss_filler", "block_in_last_7_bytes", "defaults_left_out_of_the_call",
          "allkeys_history", "pe_number_of_rva_not_16", "stub_at_search_range_limit"]
RULE = ("seeded plans: container in {raw, PE .data, XorEncoded PE} x 0-3 config blocks (settings lists of 1-40 records, "
        "XOR key any of 0x00-0xff) at offsets biased to 0, 1, m*B-7..m*B+1, EOF-4096, EOF-len, EOF-7 x filler kind "
        "(zeros, 0xff, random, key byte, text, near-miss headers) x call (from_bytes/from_file/from_path, default or "
        "custom key list, all-keys mode, initial cursor) x chunk knob B (1..16, 4095..4097, 8191..8193, random). "
        "non-trivial = header straddles a chunk boundary, lies at offset 0 or within 4096 of EOF, a decoy block is "
        "present, container is PE/XorEncoded, or ValueError expected; distinct = distinct event-log digest")
ASSUMPTIONS = [
    "reader is a full-read seekable file; no short reads or I/O errors injected",
    "in all-keys mode at most one non-default key has a candidate in the view that decides (runs where the reference "
    "scanner finds several are discarded as ambiguous: the order of the 254 leftover keys is a heuristic)",
    "settings lists end with a zero index; the over-long User-Agent continuation (C02) is not generated",
    "XorEncoded stages are locatable by marker+size, size only, or marker only (size field off by one); no decoy markers inside the stub (C09/F-C09-1)",
    "PE artifacts (architecture, stamps) are recorded but not judged (C18 is not claimed)",
    "images with more than 24 'ff ff ff' positions inside the end-of-stub marker search range are discarded: detection is quadratic in them (a cost, not a hang)",
]
REAL = ["beacon.BeaconConfig.from_bytes/from_file/from_path", "beacon.iter_beacon_config_blocks",
        "beacon.find_beacon_config_bytes", "beacon.iter_settings", "utils.iter_find_needle", "xordecode.XorEncodedFile",
        "pe.find_* (executed, not judged)", "guardrails fallback scan (executed on negatives)"]
STUB = ["storage device (SimFile / scratch file for from_path)", "io.DEFAULT_BUFFER_SIZE knob", "payload builder",
        "reference scanner + reference TLV decoder"]

DEFAULT_KEYS = [0x69, 0x2E, 0x00]


# ------------------------------------------------------------------------------------------- plan -> image

def gen_settings(rng, maxn=40):
    n = rng.choice([1, 1, 2, 3, 5, 8, 13, 20, 40, rng.randint(1, maxn)])
    out = [[1, "short", rng.choice([0, 1, 2, 4, 8, 16, rng.getrandbits(16)])]]
    total = 8
    used = {1}
    for _ in range(n - 1):
        idx = rng.choice([rng.randint(2, 78), rng.randint(2, 78), rng.randint(79, 300), rng.getrandbits(16) or 7])
        if idx in used or idx == 0:
            continue
        used.add(idx)
        t = rng.choice(["short", "int", "ptr", "ptr"])
        if t == "short":
            rec = [idx, "short", rng.getrandbits(16)]
            size = 8
        elif t == "int":
            rec = [idx, "int", rng.getrandbits(32)]
            size = 10
        else:
            ln = rng.choice([0, 1, 4, 16, 64, 128, 256, rng.randint(0, 300)])
            if idx == 9 and ln == 128:
                ln = 127
            val = bytes(rng.getrandbits(8) for _ in range(rng.randint(0, ln))).ljust(ln, b"\x00")
            rec = [idx, "ptr", hx(val)]
            size = 6 + ln
        if total + size > 4000:
            break
        total += size
        out.append(rec)
    return out


from dst.storage.images import block_bytes, build_image, make_filler, pe_data_offset  # noqa: E402,F401


def _gen_allkeys_history(rng):
    """Two candidate blocks under two different non-default keys (which of them all-keys mode prefers is a frequency
    heuristic that no oracle pins) - but the choice has to be a function of the payload: it is extracted three times, with
    all-keys extractions of other payloads (full of the one or the other key byte) in between."""
    k1, k2 = rng.sample([k for k in range(1, 255) if k not in DEFAULT_KEYS], 2)
    size = rng.choice([600, 3000, 9000])
    o1 = rng.randint(0, size // 2 - 40)
    o2 = rng.randint(size // 2, size - 40)
    mk = lambda k, at, pad: {"key": k, "at": at, "settings": [[1, "short", 0], [2, "short", rng.getrandbits(16)]], "pad": pad}  # noqa: E731
    return {"kind": "allkeys_history", "B": rng.choice([8192, 8192, 1021, 4096]), "keys": [k1, k2],
            "a": {"container": "raw", "size": size, "filler": {"kind": "random", "seed": rng.getrandbits(24), "key": 0},
                  "blocks": [mk(k1, o1, "min"), mk(k2, o2, "min")], "cut": None},
            "others": [{"container": "raw", "size": 200, "filler": {"kind": "random", "seed": rng.getrandbits(24), "key": 0},
                        "blocks": [mk(k, 100, "full")], "cut": None} for k in rng.sample([k1, k2], 2)]}


def generate(rng, tier, index):
    if rng.random() < 0.03:
        return _gen_allkeys_history(rng)
    container = rng.choice(["raw", "raw", "raw", "pe", "xorpe"])
    B = rng.choice([8192] * 5 + [4095, 4096, 4097, 8191, 8193, 1, 2, 3, 5, 7, 8, 13, 16, rng.randint(1, 16384)])
    if container == "xorpe" and B < 64 and rng.random() < 0.5:
        B = rng.choice([8192, 4097, 1021])
    keys_mode = rng.choice(["default"] * 5 + ["custom"] * 2 + ["all"] * 2)
    if keys_mode == "all" and B < 256:
        # 254 leftover keys x 2 views x len/B chunk reads: legal but very slow; keep tiny chunks for tiny raw images
        if container != "raw" or rng.random() < 0.7:
            B = rng.choice([1021, 4097, 8192])
    xor_keys = None
    if keys_mode == "custom" or (keys_mode == "all" and rng.random() < 0.3):
        xor_keys = [rng.choice([0x69, 0x2E, 0x00, 0xAF, 0xCC, rng.getrandbits(8)]) for _ in range(rng.randint(1, 4))]
        xor_keys = list(dict.fromkeys(xor_keys))
    tried = xor_keys or DEFAULT_KEYS
    pe = None
    base = 0
    if container != "raw":
        pe = {"arch": rng.choice(["x86", "x64"]), "e_lfanew": rng.choice([64, 128, 232, rng.randint(64, 400)]),
              "compile": rng.getrandbits(32), "export": rng.choice([None, rng.getrandbits(32)]),
              "text": rng.choice([16, 512, 1500]), "seed": rng.getrandbits(16),
              "prepend": rng.choice([0, 0, 0, 1, 5, rng.randint(0, 200)]),
              "append": hx(bytes(rng.getrandbits(8) for _ in range(rng.choice([0, 0, 8]))))}
        if rng.random() < 0.15:
            # NumberOfRvaAndSizes other than 16 (legal; 0 = no data directories at all, then there is no export directory)
            pe["nrva"] = rng.choice([0, 0, 1, 2, 15])
            if pe["nrva"] == 0:
                pe["export"] = None
        base = pe_data_offset(pe)
    nblocks = rng.choice([0, 1, 1, 1, 1, 2, 2, 3])
    blocks = []
    size = rng.choice([0, 64, 4096, 4103, 6000, 9000, 12000, 2 * B + 4200 if B <= 8193 else 9000])
    size = min(size, 3 * min(B, 8192) + 8192)
    if keys_mode == "all" and B < 256:
        size = min(size, 64)
    nondefault_used = False
    for j in range(nblocks):
        r = rng.random()
        if r < 0.7:
            key = rng.choice(tried)
        elif keys_mode == "all" and not nondefault_used:
            key = rng.choice([k for k in range(256) if k not in tried])
            nondefault_used = True
        elif keys_mode != "all":
            key = rng.getrandbits(8)
        else:
            key = rng.choice(tried)
        settings = gen_settings(rng)
        pad = rng.choice(["full", "full", "min"])
        if key == 0xFF:
            pad = "min"   # a zero-padded block under key 0xff is a 4 KiB run of ff: quadratic XorEncoded detection, see make_filler
        blen = 4096 if pad == "full" else len(builder.encode_settings(settings, pad_to=None))
        # absolute target offsets in the scanned view, translated to payload-relative
        m = rng.choice([1, 2])
        targets = [0, 1, m * B - 7, m * B - 6, m * B - 3, m * B - 1, m * B, m * B + 1, base + size - 4096,
                   base + size - blen, base + size - 7, base + rng.randint(0, max(0, size))]
        t = rng.choice(targets)
        at = max(0, t - base)
        at = min(at, max(0, size + 64))
        blocks.append({"key": key, "at": at, "settings": settings, "pad": pad})
    cut = None
    if container == "raw" and blocks and rng.random() < 0.2:
        b0 = rng.choice(blocks)
        enc_len = len(builder.encode_settings(b0["settings"], pad_to=None))
        cut = b0["at"] + rng.choice([7, 8, enc_len - 1, enc_len, rng.randint(7, 4096)])
    fkind = rng.choice(["zeros", "ff", "random", "random", "key", "text", "nearmiss"])
    plan = {
        "container": container, "size": size, "B": B,
        "filler": {"kind": fkind, "seed": rng.getrandbits(24), "key": (blocks[0]["key"] if blocks else 0x69)},
        "blocks": blocks, "cut": cut,
        "call": {"entry": rng.choice(["from_bytes", "from_file", "from_file", "from_path"]), "xor_keys": xor_keys,
                 "all": keys_mode == "all", "initial_pos": rng.choice([0, 0, 1, 777, 10 ** 6]),
                 # arguments that have their default value are left out of the call (the documented defaults are part of
                 # the interface: default keys 0x69, 0x2e, 0x00 and no all-keys fallback)
                 "omit_defaults": rng.random() < 0.5},
    }
    if pe:
        plan["pe"] = pe
    if container == "xorpe":
        variant = rng.choice(["both", "both", "size", "marker"])
        # documented search range (first 1024 bytes): the size relation is tried at offsets 0..1023, the end-of-stub marker
        # has to lie entirely before offset 1024; stubs right up to those limits are in the domain (same limits as C09)
        lim = {"size": 1023, "marker": 1021, "both": 1020}[variant]
        n = rng.choice([0, 20, 300, rng.randint(0, 800), rng.randint(0, 800), lim, rng.randint(lim - 8, lim)])
        stub = bytearray(builder.prng_bytes(rng.getrandbits(20), n))
        for i, b in enumerate(stub):
            if b == 0xFF:
                stub[i] = 0xFE
        stub_block = None
        if rng.random() < 0.4:
            # a (tiny) configuration block inside the *stub*, i.e. visible in the raw view only: the decoded view has to be
            # searched under every tried key before the raw view is (anchors: "XorEncoded view first, then raw")
            k = rng.choice(tried + tried + [rng.getrandbits(8)])
            sb = builder.xor1(builder.encode_settings([[1, "short", rng.choice([0, 8, 16])], [2, "short", rng.getrandbits(16)],
                                                       [3, "int", rng.getrandbits(32)]], pad_to=None), k)
            at = rng.randint(0, len(stub))
            cand = bytes(stub[:at]) + sb + bytes(stub[at:])
            if len(cand) <= lim and b"\xff\xff\xff" not in cand and b"\xff\xff" != cand[-2:] and cand[-1:] != b"\xff":
                stub = bytearray(cand)
                stub_block = {"key": k, "at": at}
        plan["xor"] = {"nonce": hx(bytes(rng.getrandbits(8) for _ in range(4))),
                       "stub": hx(bytes(stub) + (b"\xff\xff\xff" if variant != "size" else b"")), "variant": variant}
        if stub_block:
            plan["xor"]["stub_block"] = stub_block   # informational: the bytes are part of "stub"
    return plan


# ------------------------------------------------------------------------------------------- reference scanner

def find_all(view: bytes, needle: bytes):
    out = []
    p = view.find(needle)
    while p != -1:
        out.append(p)
        p = view.find(needle, p + 1)
    return out


def reference(plan, raw: bytes, decoded):
    """Returns ('block', view_name, pos, key) | ('none',) | ('ambiguous',)."""
    call = plan["call"]
    tried = call["xor_keys"] or DEFAULT_KEYS
    views = ([("decoded", decoded)] if decoded is not None else []) + [("raw", raw)]
    for name, view in views:
        for k in tried:
            hits = find_all(view, builder.xor1(builder.CONFIG_HEADER, k))
            if hits:
                return ("block", name, hits[0], k)
    if call["all"]:
        left = [k for k in range(256) if k not in tried]
        for name, view in views:
            with_hits = [(k, find_all(view, builder.xor1(builder.CONFIG_HEADER, k))) for k in left]
            with_hits = [(k, h) for k, h in with_hits if h]
            if len(with_hits) > 1:
                return ("ambiguous",)
            if with_hits:
                return ("block", name, with_hits[0][1][0], with_hits[0][0])
    return ("none",)


# ------------------------------------------------------------------------------------------- execution

_SCRATCH = None


def _scratch_dir():
    global _SCRATCH
    if _SCRATCH is None or not os.path.isdir(_SCRATCH):
        base = "/dev/shm" if os.path.isdir("/dev/shm") and os.access("/dev/shm", os.W_OK) else None
        _SCRATCH = tempfile.mkdtemp(prefix="dst-c01-", dir=base)
        import atexit
        import shutil
        atexit.register(shutil.rmtree, _SCRATCH, True)
    return _SCRATCH


def _execute_allkeys_history(plan) -> Result:
    from dissect.cobaltstrike.beacon import BeaconConfig
    res = Result()
    res.nontrivial = True
    res.probes["allkeys_history"] += 1
    a, _ = build_image(plan["a"])
    seq = [a]
    for o in plan["others"]:
        seq += [build_image(o)[0], a]
    seen = []
    with IoSeam(buffer_size=plan["B"], budget=Budget(50_000_000)):
        for i, img in enumerate(seq):
            try:
                bc = BeaconConfig.from_bytes(img, all_xor_keys=True)
                out = (bc.xorkey, bc.config_block)
            except ValueError as e:
                out = ("ValueError", str(e))
            except ReadBudgetExceeded:
                res.violate(("C01", "no_termination", "raw", "allkeys_history"), "all-keys extraction did not terminate")
                return res
            res.log.log("hist", i, out[0], out[1][:16] if isinstance(out[1], bytes) else out[1])
            if i % 2 == 0:
                seen.append(out)
            elif out[0] == "ValueError":
                res.violate(("C01", "missed_block", "nostraddle", "raw", "allkeys_history"),
                            f"all-keys extraction of a payload with one zero-padded block under key {plan['others'][i // 2]['blocks'][0]['key']:#04x} failed: {out[1]}")
                return res
    keys = [s[0] for s in seen]
    if any(s != seen[0] for s in seen):
        res.violate(("C01", "result_depends_on_earlier_extractions", "all_keys"),
                    f"the same payload (candidate blocks under {plan['keys'][0]:#04x} and {plan['keys'][1]:#04x}) extracted three times in "
                    f"all-keys mode, with all-keys extractions of other payloads in between, gave keys {keys}")
    elif seen[0][0] == "ValueError" or seen[0][0] not in (bytes([plan["keys"][0]]), bytes([plan["keys"][1]])):
        res.violate(("C01", "missed_block", "nostraddle", "raw", "allkeys_history"),
                    f"all-keys extraction found {seen[0][0]!r}, the payload has blocks under {plan['keys']}")
    return res


def execute(plan: dict) -> Result:
    if plan.get("kind") == "allkeys_history":
        return _execute_allkeys_history(plan)
    from dissect.cobaltstrike.beacon import BeaconConfig
    res = Result()
    raw, decoded = build_image(plan)
    call = plan["call"]
    B = plan["B"]
    exp = reference(plan, raw, decoded)
    if exp[0] == "ambiguous":
        res.discarded = "ambiguous_all_keys"
        return res
    # cost guard: every ff ff ff within the marker search range is a XorEncoded candidate that is validated with a
    # 1024-offset MZ scan (and the whole detection is repeated up to three times per extraction): legal, but minutes
    head = raw[:1024 + 2 * min(B, 16384)]
    if sum(1 for i in range(len(head) - 2) if head[i] == 0xFF and head[i + 1] == 0xFF and head[i + 2] == 0xFF) > 24:
        res.discarded = "pathological_ff_runs"
        return res
    keys = [bytes([k]) for k in call["xor_keys"]] if call["xor_keys"] else None
    nkeys = 256 if call["all"] else len(call["xor_keys"] or DEFAULT_KEYS)
    budget = Budget(400 * len(raw) + 5_000_000 + nkeys * 2 * (len(raw) // B + 1) * 60)
    got = None
    path = None
    kw = {"xor_keys": keys, "all_xor_keys": call["all"]}
    if call.get("omit_defaults"):
        if keys is None:
            del kw["xor_keys"]
        if not call["all"]:
            del kw["all_xor_keys"]
        res.probes["defaults_left_out_of_the_call"] += 1
    with IoSeam(buffer_size=B, budget=budget) as seam:
        try:
            if call["entry"] == "from_bytes":
                bc = BeaconConfig.from_bytes(raw, **kw)
            elif call["entry"] == "from_file":
                fh = seam.file(raw)
                fh.seek(call["initial_pos"])
                bc = BeaconConfig.from_file(fh, **kw)
            else:
                path = os.path.join(_scratch_dir(), f"img-{os.getpid()}.bin")
                with open(path, "wb") as f:
                    f.write(raw)
                bc = BeaconConfig.from_path(path, **kw)
            got = ("block", bc)
        except ValueError as e:
            got = ("ValueError", str(e))
        except ReadBudgetExceeded:
            res.violate(("C01", "no_termination", plan["container"], call["entry"]), "extraction did not terminate")
        except Exception as e:
            res.violate(("C01", "exception", type(e).__name__, plan["container"], call["entry"]),
                        f"extraction raised {type(e).__name__}: {e!r}")
        finally:
            if path and os.path.exists(path):
                os.unlink(path)
    # ---- probes
    c = plan["container"]
    if c != "raw":
        res.probes["container_" + c] += 1
        res.nontrivial = True
    if c != "raw" and plan["pe"].get("nrva", 16) != 16:
        res.probes["pe_number_of_rva_not_16"] += 1
    if c == "xorpe" and len(plan["xor"]["stub"]) // 2 >= 1017:
        res.probes["stub_at_search_range_limit"] += 1
    if call["entry"] == "from_path":
        res.probes["from_path"] += 1
    if call["entry"] == "from_file" and call["initial_pos"]:
        res.probes["from_file_nonzero_cursor"] += 1
    if B <= 16:
        res.probes["tiny_chunk"] += 1
    if call["xor_keys"]:
        res.probes["custom_key_list"] += 1
    if plan["filler"]["kind"] == "nearmiss":
        res.probes["near_miss_filler"] += 1
    if c == "xorpe" and B % 4:
        res.probes["xorencoded_B_mod4_nonzero"] += 1
    if len(plan["blocks"]) > 1:
        res.nontrivial = True
    if c == "xorpe" and plan["xor"].get("stub_block"):
        res.probes["block_in_stub_raw_view_only"] += 1
        res.nontrivial = True
        if exp[0] == "block" and exp[1] == "decoded":
            tr = call["xor_keys"] or DEFAULT_KEYS
            sk = plan["xor"]["stub_block"]["key"]
            if sk in tr and exp[3] in tr and tr.index(sk) < tr.index(exp[3]):
                res.probes["raw_stub_block_under_higher_priority_key"] += 1
    if exp[0] == "none":
        res.probes["expect_valueerror"] += 1
        res.nontrivial = True
    else:
        _, vname, pos, key = exp
        view = decoded if vname == "decoded" else raw
        if pos // B != (pos + 6) // B:
            res.probes["header_straddles_chunk"] += 1
            res.nontrivial = True
        if pos == 0:
            res.probes["offset_0"] += 1
            res.nontrivial = True
        if pos + 4096 > len(view):
            res.probes["block_cut_by_eof"] += 1
            res.nontrivial = True
        if pos + 7 == len(view):
            res.probes["block_in_last_7_bytes"] += 1
        if key == 0:
            res.probes["key_00"] += 1
        tried = call["xor_keys"] or DEFAULT_KEYS
        if key not in tried:
            res.probes["all_keys_fallback_used"] += 1
        else:
            lower = tried[tried.index(key) + 1:]
            if any(0 <= view.find(builder.xor1(builder.CONFIG_HEADER, k)) < pos for k in lower):
                res.probes["decoy_lower_priority_first_in_file"] += 1
        if len(find_all(view, builder.xor1(builder.CONFIG_HEADER, key))) > 1:
            res.probes["two_blocks_same_key"] += 1
    if got is None:
        return res
    # ---- oracle
    where = (plan["container"], call["entry"])
    if exp[0] == "none":
        if got[0] != "ValueError":
            bc = got[1]
            res.violate(("C01", "spurious_block") + where,
                        f"no block under the tried keys in the image, but extraction returned xorkey={bc.xorkey!r} "
                        f"xorencoded={bc.xorencoded} block={bc.config_block[:16].hex()}..")
        res.log.log("none", got[0])
        return res
    _, vname, pos, key = exp
    view = decoded if vname == "decoded" else raw
    want_block = builder.xor1(view[pos:pos + 4096], key)
    if got[0] == "ValueError":
        res.violate(("C01", "missed_block", "straddle" if pos // B != (pos + 6) // B else "nostraddle") + where,
                    f"block under key {key:#04x} at offset {pos} of the {vname} view (len {len(view)}, B={B}) was not "
                    f"found: ValueError({got[1]!r})")
        return res
    bc = got[1]
    res.log.log("block", vname, pos, key, bc.config_block, bc.xorkey, bc.xorencoded, bc.architecture,
                bc.pe_compile_stamp, bc.pe_export_stamp)
    if bc.config_block != want_block:
        res.violate(("C01", "wrong_block") + where,
                    f"expected the block under key {key:#04x} at offset {pos} of the {vname} view (B={B}); extraction "
                    f"returned xorkey={bc.xorkey!r} xorencoded={bc.xorencoded} block[:16]={bc.config_block[:16].hex()} "
                    f"len={len(bc.config_block)}; expected block[:16]={want_block[:16].hex()} len={len(want_block)}")
        return res
    if bc.xorkey != bytes([key]):
        res.violate(("C01", "wrong_xorkey") + where, f"xorkey reported {bc.xorkey!r}, block is under {key:#04x}")
    if bool(bc.xorencoded) != (vname == "decoded"):
        res.violate(("C01", "wrong_xorencoded") + where,
                    f"xorencoded reported {bc.xorencoded}, block was found in the {vname} view")
    want_settings = builder.ref_decode_settings(want_block)
    got_settings = [(s.index.value, s.type.value, s.length, bytes(s.value)) for s in bc.settings_tuple]
    if got_settings != want_settings:
        i = next((i for i, (a, b) in enumerate(zip(got_settings, want_settings)) if a != b),
                 min(len(got_settings), len(want_settings)))
        res.violate(("C01", "wrong_settings") + where,
                    f"settings differ from the reference decode at record {i}: got "
                    f"{got_settings[i:i + 1]!r:.200} want {want_settings[i:i + 1]!r:.200} "
                    f"({len(got_settings)} vs {len(want_settings)} records)")
    return res


# ------------------------------------------------------------------------------------------- shrinking

def candidates(plan: dict):
    if plan.get("kind") == "allkeys_history":
        yield from core.shrink_list(plan, ["others"], min_len=1)
        yield from core.shrink_int(plan, ["a", "size"])
        return
    yield from core.shrink_list(plan, ["blocks"])
    for i in range(len(plan["blocks"])):
        yield from core.shrink_list(plan, ["blocks", i, "settings"], min_len=1)
        yield from core.shrink_int(plan, ["blocks", i, "at"])
        if plan["blocks"][i]["pad"] == "full":
            yield core._set(plan, ["blocks", i, "pad"], "min")
    if plan["container"] == "xorpe":
        c = core._set(plan, ["container"], "pe")
        yield c
    if plan["container"] == "pe":
        yield core._set(plan, ["container"], "raw")
    if plan["call"]["entry"] != "from_bytes":
        yield core._set(plan, ["call", "entry"], "from_bytes")
    if plan["call"]["initial_pos"]:
        yield core._set(plan, ["call", "initial_pos"], 0)
    yield from core.shrink_int(plan, ["size"])
    yield from core.shrink_int(plan, ["B"], toward=8192)
    if plan["filler"]["kind"] != "zeros":
        yield core._set(plan, ["filler", "kind"], "zeros")
    if plan.get("cut") is not None:
        yield core._set(plan, ["cut"], None)
    if plan["call"]["xor_keys"]:
        yield from core.shrink_list(plan, ["call", "xor_keys"], min_len=1)
    if plan["container"] != "raw":
        yield from core.shrink_int(plan, ["pe", "prepend"])
    if plan["container"] == "xorpe":
        yield from core.shrink_hex(plan, ["xor", "stub"], min_len=3)
