"""World S: seeded generator of session plans (explicit content only) and shrinking candidates."""
from __future__ import annotations

from dst import core
from dst.core import hx
from dst.session import refcodec as rc
from dst.session.config import gen_config

# BeaconCommand members (value -> handler method suffix), written out so that plans do not depend on the library
COMMANDS = {1: "spawn", 2: "shell", 3: "die", 4: "sleep", 5: "cd", 7: "keylog_stop", 8: "checkin", 10: "upload",
            11: "download", 12: "execute", 27: "token_getuid", 32: "ps_list", 33: "ps_kill", 39: "pwd", 41: "jobs",
            53: "file_list", 54: "file_mkdir", 55: "file_drives", 56: "file_rm", 72: "setenv", 77: "getprivs",
            100: "inline_execute_object", 102: "lsocket_bind_localhost"}
CALLBACKS = [0, 13, 17, 19, 22, 30, 31, 32]
# ids outside the library's BeaconCommand / BeaconCallback tables: legal on the wire (newer Cobalt Strike releases add ids)
ODD_COMMANDS = [20, 21, 25, 26, 30, 34, 35, 36, 48, 58, 103, 150, 0xFFFF, 0x7FFFFFFF, 0xFFFFFFFF, 0]
ODD_CALLBACKS = [33, 34, 40, 100, 0xFFFF, 0x7FFFFFFF, 0xFFFFFFFF]
_NAMES = ["alice", "bob", "WIN-7Q2", "DESKTOP-AB12CD3", "svc_backup", "j.smith", "x"]


def _data(rng, maxlen=2048):
    n = rng.choice([0, 0, 1, 3, 11, 15, 16, 17, 31, 32, 33, 100, rng.randint(0, maxlen)])
    return bytes(rng.getrandbits(8) for _ in range(n))


def gen_handler(rng, allow_setsleep=True):
    r = rng.random()
    if r < 0.35:
        return {"kind": "ret", "cb": rng.choice(CALLBACKS), "data": hx(_data(rng, 600))}
    if r < 0.6:
        return {"kind": "send", "items": [[rng.choice(CALLBACKS), hx(_data(rng, 300))] for _ in range(rng.randint(1, 4))]}
    if r < 0.8:
        return {"kind": "none"}
    if r < 0.84:
        return {"kind": "raise"}
    if r < 0.95 and allow_setsleep:
        return {"kind": "register", "cmd": rng.choice([rng.choice(sorted(COMMANDS)), "same", "same", "catch_all"]),
                "new": gen_handler(rng, allow_setsleep=False)}
    if allow_setsleep:
        return {"kind": "setsleep", "sleeptime": rng.choice([500, 2000, 30000]), "jitter": rng.choice([0, 20, 90])}
    return {"kind": "none"}


def gen_client(rng, k, cfg, focus):
    cmds = rng.sample(sorted(COMMANDS), rng.randint(1, 5))
    handlers = []
    methods = {}
    for c in cmds:
        mech = rng.choice(["decorator", "method", "both", "two_decorators", "none"])
        if mech in ("decorator", "both", "two_decorators"):
            handlers.append(["handle", c, gen_handler(rng), 0])
        if mech == "two_decorators":
            handlers.append(["handle", c, gen_handler(rng), 1])
        if mech in ("method", "both"):
            methods[COMMANDS[c]] = gen_handler(rng)
    ca = rng.choice(["none", "decorator", "method", "both"])
    if ca in ("decorator", "both"):
        handlers.append(["catch_all", gen_handler(rng), 0])
    if ca in ("method", "both"):
        methods["catch_all"] = gen_handler(rng)
    bid_mode = rng.random()
    if bid_mode < 0.08:
        bid = None          # the client picks its own id (from the seeded PRNG)
    elif bid_mode < 0.7:
        bid = rng.randrange(0, 2 ** 31, 1)
    elif bid_mode < 0.8:
        bid = rng.choice([0, 1, 2, 3, 2 ** 31 - 1, 2 ** 31 - 2])
    elif focus == "C19":
        bid = rng.choice([-1, -2, 2 ** 31, 2 ** 31 + 1, 2 ** 32 - 1, 2 ** 32, 2 ** 32 + 2, -2 ** 31, rng.randrange(-2 ** 33, 2 ** 33)])
    else:
        bid = rng.randrange(0, 2 ** 31)
    user = rng.choice(_NAMES)
    computer = rng.choice(_NAMES)
    process = rng.choice(["rundll32.exe", "svchost.exe", "a.exe"])
    # (long names: the info string "computer<TAB>user<TAB>process" is cut to what fits and may lose its separators)
    if rng.random() < (0.4 if focus == "C19" else 0.15):
        pool = "abcXYZ09 .-_éü中文\U0001f600"
        user = "".join(rng.choice(pool) for _ in range(rng.choice([0, 1, 5, 20, 51, 60, 200])))
        computer = "".join(rng.choice(pool) for _ in range(rng.choice([0, 1, 15, 30, 51, 120])))
        if rng.random() < 0.5:
            process = "".join(rng.choice(pool) for _ in range(rng.choice([1, 12, 17, 20, 30, 49, 60]))) + rng.choice(["", ".exe"])
    run = {"beacon_id": bid, "user": user, "computer": computer, "process": process,
           "internal_ip": rng.choice([None, "10.1.2.3", "192.168.1.77"]), "arch": rng.choice([None, "x86", "x64"]),
           "high_integrity": rng.random() < 0.3, "pid": rng.choice([None, 4242])}
    if rng.random() < 0.5:
        run["sleeptime"] = rng.choice([100, 1000, 60000, rng.randint(1, 100000)])
        run["jitter"] = rng.choice([0, 1, 25, 50, 99, 100, rng.randint(0, 100)])
    return {"k": k, "run": run, "handlers": handlers, "methods": methods, "start_at_us": rng.choice([0, 0, rng.randint(0, 5_000_000)]),
            "clock_jump_per_restart_s": rng.choice([0, 0, 5, -5])}


def effective_sleep(cfg, spec):
    return spec["run"].get("sleeptime", cfg["sleeptime"])


def gen_session(rng, focus: str, tier: str = "quick"):
    cfg = gen_config(rng, allow_uri_append=(rng.random() < (0.25 if focus == "C07" else 0.08)),
                     allow_static_param=(rng.random() < 0.25))
    nclients = rng.choice([1, 1, 1, 2, 3])
    clients = [gen_client(rng, k, cfg, focus) for k in range(nclients)]
    # distinct beacon ids per run (one decoder session per beacon)
    seen = set()
    for c in clients:
        b = c["run"]["beacon_id"]
        if b is None:
            continue
        while (b - b % 2) & 0xFFFFFFFF in seen:
            b = rng.randrange(0, 2 ** 31)
        c["run"]["beacon_id"] = b
        seen.add((b - b % 2) & 0xFFFFFFFF)
    operator = []
    faults = []
    noise = []
    horizon = 0
    faulty = rng.random() < 0.55
    for c in clients:
        st = effective_sleep(cfg, c)
        ncheck = rng.choice([5, 10, 20, 40]) if focus != "C19" else rng.choice([10, 30, 60, 120])
        ntasks = rng.randint(0, min(ncheck - 2, 12 if focus != "C19" else 40))
        handled = [r[1] for r in c["handlers"] if r[0] == "handle"] + [k_ for k_, v in COMMANDS.items() if v in c["methods"]]
        for j in range(ntasks):
            if handled and rng.random() < 0.7:
                cmd = rng.choice(handled)
            else:
                cmd = rng.choice(sorted(COMMANDS))
            at = c["start_at_us"] + rng.randint(0, max(1, (ncheck - 2) * st * 1000 // 2))
            operator.append({"at_us": at, "client": c["k"], "task": [cmd, hx(_data(rng))]})
        if rng.random() < 0.35:
            for _ in range(rng.randint(1, 3)):
                operator.append({"at_us": c["start_at_us"] + rng.randint(st * 1000, max(st * 1000 + 1, (ncheck - 1) * st * 1000 // 2)),
                                 "client": c["k"],
                                 "callbacks": [[rng.choice(CALLBACKS + [rng.choice(ODD_CALLBACKS)]), hx(_data(rng, 200))]
                                               for _ in range(rng.randint(2, 5))]})
        if rng.random() < 0.3:
            for _ in range(rng.randint(1, 3)):
                cmd = rng.choice(ODD_COMMANDS + [rng.choice(sorted(COMMANDS)), rng.getrandbits(32)])
                operator.append({"at_us": c["start_at_us"] + rng.randint(st * 1000, max(st * 1000 + 1, (ncheck - 1) * st * 1000 // 2)),
                                 "client": c["k"], "unsolicited_task": [cmd, hx(_data(rng, 300))]})
        if faulty:
            kinds = rng.sample(["drop_request", "drop_response", "dup_request", "http_error", "corrupt_request",
                                "corrupt_response", "delay"], rng.randint(1, 4))
            for _ in range(rng.randint(1, 5)):
                kind = rng.choice(kinds)
                f = {"kind": kind, "client": c["k"], "request": rng.randint(0, ncheck + ntasks)}
                if kind.startswith("corrupt"):
                    f["flips"] = [[rng.randint(0, 5000), 1 << rng.randint(0, 7)] for _ in range(rng.randint(1, 3))]
                    if rng.random() < 0.25:
                        f["truncate"] = rng.randint(1, 5000)
                if kind == "http_error":
                    f["status"] = rng.choice([400, 403, 404, 500, 502, 503])
                if kind == "delay":
                    f["extra_us"] = rng.choice([1_000_000, 4_000_000, 3 * st * 1000])
                if not any(x["client"] == f["client"] and x["request"] == f["request"] for x in faults):
                    faults.append(f)
            if rng.random() < 0.4 and c["run"]["beacon_id"] is not None:     # (a self-chosen id is not expected to survive a restart)
                for _ in range(rng.randint(1, 3)):
                    op = {"at_us": c["start_at_us"] + rng.randint(0, ncheck * st * 1000 // 2), "client": c["k"],
                          "restart": True, "delay_us": rng.choice([1000, 500_000, st * 1000])}
                    if rng.random() < 0.45:
                        # the same client object is run again (same beacon id), half of the time with other host details
                        op["reuse_object"] = True
                        if rng.random() < 0.6:
                            op["run_override"] = {"user": rng.choice(_NAMES) + "2", "computer": rng.choice(_NAMES), "process": "other.exe",
                                                  "pid": rng.choice([None, 31337]), "internal_ip": "172.16.0.9"}
                    operator.append(op)
        horizon = max(horizon, c["start_at_us"] + (ncheck + ntasks + 4) * st * 1000 + (12_000_000 if faulty else 0))
    if rng.random() < 0.5:
        for _ in range(rng.randint(1, 4)):
            noise.append(gen_noise(rng, cfg, horizon))
        for _ in range(rng.choice([0, 1, 2])):
            noise.append({"at_us": rng.randint(horizon // 4, max(horizon // 4 + 1, horizon)), "replay": rng.choice(["get", "post"]),
                          "how": rng.choice(["verb", "uri"])})
    operator.sort(key=lambda o: (o["at_us"], o["client"]))
    plan = {"world": "S", "config": cfg, "clients": clients, "operator": operator, "faults": faults, "noise": noise,
            "net": {"latency_us": [200, rng.choice([1000, 90000])], "timeout_us": 5_000_000},
            "limits": {"deadline_us": horizon, "max_events": 1200}}
    return plan


def gen_noise(rng, cfg, horizon):
    uris = [u for _, u in cfg["domains"]]
    kind = rng.choice(["other_verb", "other_uri", "contains_uri", "favicon", "post_other"])
    verb_get, verb_post = cfg["verb_get"], cfg["verb_post"]
    others = [v for v in ("GET", "POST", "HEAD", "OPTIONS", "PUT") if v not in (verb_get, verb_post)]
    if kind == "other_verb":
        method, path = rng.choice(others), rng.choice(uris)
    elif kind == "contains_uri":
        method, path = verb_get, "/zz" + rng.choice(uris)
    elif kind == "post_other":
        method, path = verb_post, "/zz-unrelated" + cfg["submit"]
    elif kind == "favicon":
        method, path = "GET", "/favicon.ico" if not any("/favicon.ico".startswith(u) for u in uris) or verb_get != "GET" else "/zz.ico"
    else:
        method, path = verb_get, "/zz-not-a-beacon-uri"
    if (method == verb_get and any(path.startswith(u) for u in uris)) or (method == verb_post and path.startswith(cfg["submit"])):
        method, path = rng.choice(others), "/zz"
    wire = rc.serialize_request(method.encode(), path.encode(), [(b"q", b"1")] if rng.random() < 0.5 else [],
                                [(b"Host", b"c2.example.com"), (b"User-Agent", b"curl/8")],
                                b"" if method in ("GET", "HEAD") else bytes(rng.getrandbits(8) for _ in range(rng.randint(0, 40))))
    return {"at_us": rng.randint(0, max(1, horizon // 2)), "wire": hx(wire), "note": kind}


def candidates(plan: dict):
    """Shrinking candidates for a session plan."""
    yield from core.shrink_list(plan, ["faults"])
    yield from core.shrink_list(plan, ["noise"])
    if len(plan["clients"]) > 1:
        for i in range(len(plan["clients"])):
            k = plan["clients"][i]["k"]
            new = core._set(plan, ["clients"], [c for c in plan["clients"] if c["k"] != k])
            new["operator"] = [o for o in new["operator"] if o["client"] != k]
            new["faults"] = [f for f in new["faults"] if f["client"] != k]
            yield new
    yield from core.shrink_list(plan, ["operator"])
    for i, c in enumerate(plan["clients"]):
        yield from core.shrink_list(plan, ["clients", i, "handlers"])
        for m in list(c["methods"]):
            new = core._set(plan, ["clients", i, "methods"], {a: b for a, b in c["methods"].items() if a != m})
            yield new
        for key in ("sleeptime", "jitter"):
            if key in c["run"]:
                new = core._set(plan, ["clients", i, "run"], {a: b for a, b in c["run"].items() if a != key})
                yield new
    for prog in ("get", "post", "server"):
        steps = plan["config"][prog]
        for j, st in enumerate(steps):
            if st[0] in rc.ENCODERS or st[0] in rc.STATIC:
                yield core._set(plan, ["config", prog], steps[:j] + steps[j + 1:])
    if len(plan["config"]["domains"]) > 1:
        yield from core.shrink_list(plan, ["config", "domains"], min_len=1)
    for i, o in enumerate(plan["operator"]):
        if "task" in o and o["task"][1]:
            yield core._set(plan, ["operator", i, "task"], [o["task"][0], ""])
    yield from core.shrink_int(plan, ["limits", "deadline_us"])
