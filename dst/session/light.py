"""Seams for kernel-less World S executions (exchange plans): only the PRNG seams are needed."""
from __future__ import annotations

import random as _random

from dst.session.kernel import EdgeBits, ModuleLikeRandom, SeededBytes


class LightSeams:
    def __init__(self, run_seed: str):
        self.run_seed = run_seed
        self.saved = []

    def __enter__(self):
        import logging

        import Crypto.Random as cr
        from dissect.cobaltstrike import c2, client, utils
        from dst import core as _core
        if not _core.DEBUG_LOG_ON:
            logging.disable(logging.CRITICAL)
        rng = ModuleLikeRandom(int(self.run_seed, 16) ^ 0x5EED)
        self.rng = rng
        class _FixedTime:
            def time(self):
                return 1_700_000_000.0

            def sleep(self, s):
                raise RuntimeError("time.sleep called in a kernel-less execution")

            def __getattr__(self, name):
                import time as _t
                return getattr(_t, name)

        for mod, name, new in ((client, "time", _FixedTime()), (client, "random", rng), (c2, "random", EdgeBits(rng)), (utils, "random", rng),
                               (cr, "get_random_bytes", SeededBytes(self.run_seed))):
            self.saved.append((mod, name, getattr(mod, name)))
            setattr(mod, name, new)
        return self

    def __exit__(self, *exc):
        for mod, name, old in reversed(self.saved):
            setattr(mod, name, old)
        self.saved.clear()
        return False
