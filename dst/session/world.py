"""World S: one simulated C2 session — real HttpBeaconClient threads, reference team server, faulty network,
virtual clock, seeded PRNGs, wire tap with passive C2Http decoders — and its oracles."""
from __future__ import annotations

import hashlib
import struct
from collections import Counter
from typing import Any, Dict, List, Optional

import httpx as _httpx

from dst import core
from dst.core import Result, hx, unhx
from dst.session import refcodec as rc
from dst.session.config import config_block, rsa_key
from dst.session.kernel import Actor, Kernel, Killed, Seams
from dst.session.server import RefServer

EPOCH0 = 1_700_000_000
VARIANTS = ("rsa", "aes_rand", "aes_hmac", "aes_noverify")
CMD_NAMES = None


def _cmd_names():
    """Command id -> handler-method name (on_<name>), for the commands method handlers are generated for. Pinned here (taken
    from the documented command table), NOT read from the library's enum: the oracle must not follow a change of the names."""
    from dst.session.sessiongen import COMMANDS
    return COMMANDS


def snapshot_config(bc) -> str:
    """Deep, order-sensitive fingerprint of everything observable on a BeaconConfig (C14 invariant)."""
    h = hashlib.sha256()

    def feed(x):
        h.update(repr(x).encode())
        h.update(b"|")
    for view in (bc.settings, bc.settings_by_index, bc.raw_settings, bc.raw_settings_by_index):
        for k, v in view.items():
            feed((str(k), v))
    for s in bc.settings_tuple:
        feed((s.index.value, s.type.value, s.length, bytes(s.value)))
    feed(bc.config_block)
    feed((bc.domains, bc.uris, bc.domain_uri_pairs, bc.submit_uri, bc.killdate, bc.protocol, bc.port, bc.watermark,
          bc.is_trial, bc.public_key, bc.sleeptime, bc.jitter, bc.xorkey, bc.xorencoded, bc.setting_enums,
          bc.max_setting_enum, repr(bc)))
    return h.hexdigest()


class TapRecord:
    __slots__ = ("wire", "kind", "client", "truth", "corrupted", "req_index", "note", "parts")

    def __init__(self, wire, kind, client, truth, corrupted=False, req_index=None, note="", parts=None):
        self.wire, self.kind, self.client, self.truth = wire, kind, client, truth
        self.corrupted, self.req_index, self.note, self.parts = corrupted, req_index, note, parts


class World:
    def __init__(self, plan: dict, res: Result):
        self.plan = plan
        self.res = res
        self.run_seed = plan.get("run_seed", "0" * 16)
        self.kernel = Kernel(self.run_seed, res.log)
        self.epoch0 = EPOCH0
        self.cfg = plan["config"]
        self.priv = rsa_key(self.cfg["rsa"])
        self.server = RefServer(self.cfg, self.priv, self.run_seed)
        self.tap: List[TapRecord] = []
        self.faults: Dict[tuple, dict] = {}
        for f in plan.get("faults", []):
            self.faults[(f["client"], f["request"])] = f
        self.req_counter: Counter = Counter()
        self.clients: Dict[int, dict] = {}      # client slot -> state
        self.sim_random = None
        self.net = plan.get("net", {"latency_us": [200, 90000], "timeout_us": 5_000_000})
        self.last_fault_time = 0

    # ------------------------------------------------------------------ violations helper
    def violate(self, prop: str, *sig_and_msg):
        *sig, msg = sig_and_msg
        self.res.violate((prop,) + tuple(sig), msg)

    # ------------------------------------------------------------------ client construction
    def make_client(self, k: int, spec: dict):
        from dissect.cobaltstrike.client import HttpBeaconClient
        world = self
        st = self.clients[k]

        class SimClient(HttpBeaconClient):
            def get_task(self):
                if world.kernel.current is not st["actor"] or st["actor"].kill_requested:
                    # a superseded incarnation on its way out (it is stopped at its next seam call): not observed
                    return super().get_task()
                if st.get("pending_ret"):
                    # the loop came round to the next check-in although a handler's returned callback was never sent
                    cb, data = st["pending_ret"][0]
                    world.violate("C07", "handler_result_not_sent",
                                  f"client {k}: a handler returned callback ({cb}, {data[:16].hex()}..) for task "
                                  f"#{st['tasks_received']}, the beacon loop went on to the next check-in without calling "
                                  f"send_callback for it")
                    st["pending_ret"] = []
                if st.get("gets_this_life", 0) >= 1 and not st.get("slept_since_get"):
                    world.violate("C19", "no_sleep_between_checkins",
                                  f"client {k}: two consecutive check-ins without a sleep in between (every iteration of the "
                                  f"beacon loop sleeps for one interval of the jitter band)")
                st["gets_this_life"] = st.get("gets_this_life", 0) + 1
                st["slept_since_get"] = False
                st["phase"] = "get"
                st["outgoing"] = ("get", world.snapshot_metadata(self), self.beacon_id)
                t = super().get_task()
                world.on_task_received(k, self, t)
                return t

            def send_callback(self, callback_id, data):
                if world.kernel.current is not st["actor"] or st["actor"].kill_requested:
                    return super().send_callback(callback_id, data)
                item = (int(callback_id), bytes(data))
                if item in st.get("pending_ret", []):
                    st["pending_ret"].remove(item)
                st["outgoing"] = ("post", [item], self.beacon_id)
                st["produced"].append(item)
                before = getattr(self, "counter", None)
                try:
                    r = super().send_callback(callback_id, data)
                except (_httpx.RequestError, _httpx.HTTPStatusError):
                    raise          # what the simulated network did to this POST
                except Exception as e:  # noqa: BLE001 - anything else is the client failing on its own
                    world.violate("C07", "send_callback_raised", type(e).__name__,
                                  f"client {k}: send_callback({int(callback_id)}, {len(data)} bytes) raised {e!r:.200} "
                                  f"(not a network error)")
                    raise
                st["sent_counters"].append(self.counter)
                if before is not None and not self.counter > before:
                    world.violate("C07", "callback_counter_not_advancing",
                                  f"client {k}: callback counter {before} -> {self.counter} across a send_callback")
                return r

        for cmdname, hspec in (spec.get("methods") or {}).items():
            setattr(SimClient, f"on_{cmdname}", world.make_handler(k, f"method:{cmdname}", hspec, method=True))
        c = SimClient()
        c.logger = _NullLogger()
        for reg in spec.get("handlers", []):
            if reg[0] == "handle":
                c.handle(reg[1])(world.make_handler(k, f"handle:{reg[1]}#{reg[3] if len(reg) > 3 else 0}", reg[2]))
            elif reg[0] == "catch_all":
                c.catch_all()(world.make_handler(k, f"catch_all#{reg[2] if len(reg) > 2 else 0}", reg[1]))
        return c

    def make_handler(self, k: int, hid: str, hspec: dict, method: bool = False):
        world = self
        st = self.clients[k]

        def body(client, task):
            st["dispatch"].append((st["tasks_received"], hid))
            world.res.log.log("dispatch", k, hid, int(task.command) if task is not None else None)
            kind = hspec["kind"]
            from dissect.cobaltstrike.c_c2 import BeaconCallback
            if kind == "ret":
                st.setdefault("pending_ret", []).append((int(hspec["cb"]), unhx(hspec["data"])))
                return (BeaconCallback(hspec["cb"]), unhx(hspec["data"]))
            if kind == "send":
                for cb, data in hspec["items"]:
                    client.send_callback(BeaconCallback(cb), unhx(data))
                return None
            if kind == "raise":
                raise RuntimeError("handler failure (workload)")
            if kind == "register":
                # late registration: a handler that registers another handler while the loop is running - for some command,
                # for the very command being handled ("same"), or as a catch-all
                n = len(st["late_regs"])
                cmd = hspec["cmd"]
                if cmd == "same":
                    cmd = int(task.command) if task is not None else -1
                if cmd == "catch_all":
                    cmd = -1
                new_hid = f"late:{cmd}#{n}"
                st["late_regs"].append((st["objgen"], st["tasks_received"], cmd, new_hid))
                if cmd == -1:
                    client.catch_all()(world.make_handler(k, new_hid, hspec["new"]))
                    world.res.probes["late_catch_all_registration"] += 1
                else:
                    client.handle(cmd)(world.make_handler(k, new_hid, hspec["new"]))
                    if hspec["cmd"] == "same":
                        world.res.probes["late_registration_for_command_being_handled"] += 1
                world.res.probes["late_registration"] += 1
                return None
            if kind == "setsleep":
                client.sleeptime = hspec["sleeptime"]
                client.jitter = hspec["jitter"]
                st["band"] = (hspec["sleeptime"], hspec["jitter"])
                return None
            return None

        if method:
            def on_x(self, task):
                return body(self, task)
            return on_x

        def handler(task):
            return body(st["obj"], task)
        return handler

    def snapshot_metadata(self, client) -> dict:
        m = client.metadata
        return {f: (bytes(getattr(m, f)) if isinstance(getattr(m, f), (bytes, bytearray)) else int(getattr(m, f)))
                for f in ("magic", "aes_rand", "ansi_cp", "oem_cp", "bid", "pid", "port", "flag", "ver_major", "ver_minor",
                          "ver_build", "ptr_x64", "ptr_gmh", "ptr_gpa", "ip", "info")}

    def start_client(self, k: int, spec: dict, at_us: int, incarnation: int, reuse_object: bool = False, run_override=None):
        st = self.clients.setdefault(k, {"produced": [], "sent_counters": [], "dispatch": [], "tasks_received": 0,
                                         "received": [], "sleeps": [], "incarnations": 0, "crashes": [], "ids": [],
                                         "keys": [], "band": None, "obj": None, "outgoing": None, "actor": None,
                                         "metadata_snapshot": None, "run_error": None, "rejected": None, "alive_from": None,
                                         "late_regs": [], "objgen": 0})
        st["incarnations"] += 1
        st["metadata_snapshot"] = None
        st["pending_ret"] = []
        st["gets_this_life"] = 0
        if reuse_object and st["obj"] is not None:
            # the operator runs the SAME client object again (same beacon id, possibly other host details): whatever the
            # object registered or cached during its first life is still there, and must not leak into what it sends now
            client = st["obj"]
            self.res.probes["client_object_rerun"] += 1
        else:
            # a new client object starts from the static registrations: late registrations are tagged with the object generation
            client = self.make_client(k, spec)
            st["objgen"] += 1
        st["obj"] = client
        run = dict(spec["run"])
        run.update(run_override or {})
        st["band"] = None

        def target():
            try:
                return client.run(self.bconfig, **run)
            finally:
                pass

        a = self.kernel.spawn(f"client{k}.{incarnation}", target, at_us)
        a.data["client"] = k
        a.data["clock_offset_s"] = spec.get("clock_offset_s", 0) + 1000 * (incarnation - 1) * spec.get("clock_jump_per_restart_s", 0)
        st["actor"] = a
        st["alive_from"] = at_us
        return a

    # ------------------------------------------------------------------ seam callbacks (actor thread)
    def on_sleep(self, actor: Actor, seconds: float):
        k = actor.data.get("client")
        st = self.clients[k]
        # the band comes from what was REQUESTED (plan: run() overrides, else the configuration; later a setsleep handler),
        # never from the client's own attributes
        spec = next(s_ for s_ in self.plan["clients"] if s_["k"] == k)
        band = st["band"] or (spec["run"].get("sleeptime", self.cfg["sleeptime"]), spec["run"].get("jitter", self.cfg["jitter"]))
        st["sleeps"].append((self.kernel.now, seconds, band))
        st["slept_since_get"] = True
        self.res.log.log("sleep", k, round(seconds * 1000, 3))
        sleeptime, jitter = band
        lo = sleeptime * (1 - jitter / 100.0)
        ms = seconds * 1000.0
        if not (lo - 1e-6 <= ms <= sleeptime + 1e-6):
            self.violate("C19", "sleep_outside_jitter_band",
                         f"client {k} slept {ms:.3f} ms with sleeptime={sleeptime} jitter={jitter} (band [{lo:.3f}, {sleeptime}])")

    def on_task_received(self, k: int, client, task):
        st = self.clients[k]
        lr = st.get("last_response")
        st["last_response"] = None
        if task is None:
            self.res.log.log("task", k, None)
            if lr and lr.get("task") is not None and not lr.get("corrupted") and lr.get("delivered") \
                    and lr["task"]["cmd"] != 6:
                self.violate("C07", "client_missed_task", f"cmd={lr['task']['cmd']}",
                             f"server sent task {lr['task']} to client {k} (response delivered intact) but get_task() returned None")
            return
        st["tasks_received"] += 1
        got = (int(task.epoch), int(task.command), bytes(task.data))
        st["received"].append(got)
        st.setdefault("received_inc", []).append(st["objgen"])
        self.res.log.log("task", k, got[1], got[2])
        if lr is None or lr.get("task") is None:
            prop = "C05" if lr and lr.get("corrupted") else "C07"
            self.violate(prop, "client_task_from_nowhere", f"client {k} got task {got} but the server sent none in that response")
            return
        want = (lr["epoch"], lr["task"]["cmd"], lr["task"]["data"])
        if got != want:
            if lr.get("corrupted"):
                self.violate("C05", "client_accepted_tampered_task",
                             f"response was corrupted in flight, client {k} nevertheless accepted task {got!r:.200} (sent {want!r:.200})")
            else:
                self.violate("C04", "client_decoded_wrong_task", _prog_sig(self.cfg["server"]),
                             f"server sent {want!r:.300} with program {self.cfg['server']}, client {k} decoded {got!r:.300}")

    # ------------------------------------------------------------------ network (actor thread -> kernel events)
    def net_exchange(self, request: _httpx.Request) -> _httpx.Response:
        kernel = self.kernel
        a = kernel.current
        k = a.data["client"]
        st = self.clients[k]
        n = self.req_counter[k]
        self.req_counter[k] += 1
        raw_headers = [(bytes(hk), bytes(hv)) for hk, hv in request.headers.raw]
        body = request.read()
        target = request.url.raw_path
        wire = rc.serialize_raw_request(request.method.encode(), target, raw_headers, body)
        parts = {"method": request.method.encode(), "target": target, "headers": raw_headers, "body": body}
        outgoing = st.get("outgoing")
        kernel.at(kernel.now, self._net_up, a, a.gen, k, n, wire, parts, outgoing)
        v = a.park("request")
        # v: ("resp", wire)
        try:
            r = rc.parse_wire(v[1])
            if not isinstance(r, rc.WireResponse):
                raise ValueError("not a response")
        except Exception as e:
            raise _httpx.RemoteProtocolError(f"malformed response: {e}", request=request)
        return _httpx.Response(r.status, headers=r.headers, content=r.body, extensions={"reason_phrase": r.reason})

    def _latency(self, k, n, leg):
        lo, hi = self.net["latency_us"]
        return core.draw_range(self.run_seed, "net", lo, hi, k, n, leg)

    def _net_up(self, a: Actor, gen: int, k: int, n: int, wire: bytes, parts: dict, outgoing):
        kernel = self.kernel
        f = self.faults.get((k, n))
        fk = f["kind"] if f else None
        timeout = self.net["timeout_us"]
        self.res.log.log("send", k, n, fk, wire)
        if f:
            self.last_fault_time = max(self.last_fault_time, kernel.now + timeout)
        if fk == "drop_request":
            self.res.faults["drop_request"] += 1
            kernel.at(kernel.now + timeout, kernel.wake, a, gen, _httpx.ConnectTimeout("simulated: request lost"))
            return
        corrupted = False
        if fk == "corrupt_request":
            wire2 = _mutate(wire, f)
            corrupted = wire2 != wire
            wire = wire2
            self.res.faults["corrupt_request"] += 1
        lat = self._latency(k, n, "up")
        if fk in ("delay", "slow_server"):
            lat += f.get("extra_us", 3_000_000)
            self.res.faults[fk] += 1
        kernel.at(kernel.now + lat, self._server_rx, a, gen, k, n, wire, parts, outgoing, f, corrupted, kernel.now)

    def _server_rx(self, a, gen, k, n, wire, parts, outgoing, f, corrupted, sent_at):
        kernel = self.kernel
        fk = f["kind"] if f else None
        st = self.clients[k]
        epoch = self.epoch0 + kernel.now // 1_000_000
        copies = 2 if fk == "dup_request" else 1
        if copies == 2:
            self.res.faults["dup_request"] += 1
        resp_wire = None
        info = None
        for copy in range(copies):
            ridx = len(self.tap)
            if fk == "http_error" and copy == 0:
                self.res.faults["http_error"] += 1
                kind = self.server.classify(rc.parse_wire(wire)) if not corrupted else None
                self.tap.append(TapRecord(wire, f"{kind}_req" if kind else "unknown_req", k, self._truth(kind, outgoing, st),
                                          corrupted, parts=parts))
                rw = rc.serialize_response(f.get("status", 503), b"Unavailable", [(b"Content-Length", b"5")], b"error")
                self.tap.append(TapRecord(rw, "err_resp", k, [], False, ridx))
                resp_wire, info = rw, {"kind": kind, "task": None, "error": "proxy"}
                continue
            rw, inf = self.server.handle(wire, kernel.now, epoch)
            kind = inf.get("kind")
            self.res.log.log("server", k, n, kind, inf.get("error"), (inf.get("task") or {}).get("cmd"))
            self.tap.append(TapRecord(wire, f"{kind}_req" if kind else "unknown_req", k, self._truth(kind, outgoing, st),
                                      corrupted, parts=parts))
            if outgoing and outgoing[0] == "post" and not corrupted and copy == 0:
                st.setdefault("delivered_cbs", []).extend(outgoing[1])
            self._peer_oracles(k, st, kind, inf, outgoing, corrupted, wire)
            if kind == "get" and not inf.get("error"):
                truth = [("task", epoch, inf["task"]["cmd"], inf["task"]["data"])] if inf.get("task") else []
                self.tap.append(TapRecord(rw, "get_resp", k, truth, False, ridx))
            elif kind == "post" and not inf.get("error"):
                self.tap.append(TapRecord(rw, "post_resp", k, [], False, ridx))
            else:
                self.tap.append(TapRecord(rw, "err_resp", k, [], False, ridx))
            if copy == 0:
                resp_wire, info = rw, inf
                info["epoch"] = epoch
            elif inf.get("task") is not None:
                # the duplicate consumed a task whose response nobody receives
                self.res.probes["task_lost_in_flight"] += 1
                st.setdefault("lost_tasks", []).append(inf["task"])
        lr = {"task": info.get("task") if info else None, "epoch": info.get("epoch"), "corrupted": False, "delivered": False}
        if fk == "drop_response":
            self.res.faults["drop_response"] += 1
            if lr["task"] is not None:
                self.res.probes["task_lost_in_flight"] += 1
                st.setdefault("lost_tasks", []).append(lr["task"])
            kernel.at(sent_at + self.net["timeout_us"], kernel.wake, a, gen, _httpx.ReadTimeout("simulated: response lost"))
            return
        if fk == "corrupt_response":
            rw2 = _mutate(resp_wire, f)
            lr["corrupted"] = rw2 != resp_wire
            resp_wire = rw2
            self.res.faults["corrupt_response"] += 1
            if lr["task"] is not None and lr["corrupted"]:
                st.setdefault("lost_tasks", []).append(lr["task"])
        lat = self._latency(k, n, "down")
        kernel.at(kernel.now + lat, self._deliver, a, gen, k, resp_wire, lr)

    def _deliver(self, a, gen, k, resp_wire, lr):
        st = self.clients[k]
        if a.done or gen != a.gen:
            if lr["task"] is not None:
                self.res.probes["task_lost_in_flight"] += 1
                st.setdefault("lost_tasks", []).append(lr["task"])
            return
        lr["delivered"] = True
        st["last_response"] = lr
        self.kernel.wake(a, gen, ("resp", resp_wire))

    def _truth(self, kind, outgoing, st):
        if kind == "get" and outgoing and outgoing[0] == "get":
            return [("metadata", outgoing[1])]
        if kind == "post" and outgoing and outgoing[0] == "post":
            return [("callback", cb, data) for cb, data in outgoing[1]]
        return []

    # ------------------------------------------------------------------ during-run oracles at the peer
    def _peer_oracles(self, k, st, kind, inf, outgoing, corrupted, wire):
        if corrupted:
            return
        cfgname = "get" if kind == "get" else "post"
        if kind is None:
            self.violate("C07", "client_request_not_routable",
                         f"client {k} sent a request the server cannot route by verb+URI: {wire[:120]!r}")
            return
        if inf.get("error"):
            prop = "C06" if "RSA" in inf["error"] or "metadata" in inf["error"] else "C04"
            self.violate(prop, "peer_cannot_decode", kind, _prog_sig(self.cfg[cfgname]),
                         f"reference peer could not decode the client's {kind} message: {inf['error']}; program "
                         f"{self.cfg[cfgname]}; wire {wire[:300]!r}")
            return
        if kind == "get":
            want = outgoing[1] if outgoing and outgoing[0] == "get" else None
            got = inf["meta"]
            if want is not None:
                diff = [f for f in want if f != "magic" and got.get(f) != want[f]]
                if diff or got["magic"] != 0xBEEF:
                    self.violate("C06", "metadata_field_mismatch", ",".join(diff),
                                 f"peer decrypted metadata fields {diff} differ: got { {f: got.get(f) for f in diff} } want { {f: want[f] for f in diff} }")
                if got["size"] != len(inf["plaintext"]) - 8:
                    self.violate("C06", "metadata_size_inconsistent", f"size field {got['size']} for a {len(inf['plaintext'])}-byte blob")
            if got["bid"] % 2 or not (0 <= got["bid"] < 2 ** 31):
                self.violate("C19", "beacon_id_not_even_in_range", f"client {k} presented beacon id {got['bid']}")
            st["ids"].append(got["bid"])
            st["keys"].append(got["aes_rand"])
        else:
            bid = outgoing[2] if outgoing and len(outgoing) > 2 else None
            if bid is not None and inf.get("id") != str(bid).encode():
                self.violate("C07", "post_id_mismatch", f"POST id {inf.get('id')!r} != str(beacon_id) {bid}")
            want = [(cb, data) for cb, data in (outgoing[1] if outgoing and outgoing[0] == "post" else [])]
            got = [(c_[2], c_[3]) for c_ in inf.get("callbacks", [])]
            if got != want:
                self.violate("C04", "peer_decoded_wrong_callbacks", _prog_sig(self.cfg["post"]),
                             f"client {k} sent callbacks {want!r:.300}, peer decoded {got!r:.300}")
            for (ct, sig), cbinfo in zip(inf.get("frames", []), inf.get("callbacks", [])):
                pt = cbinfo[4]
                n = 12 + cbinfo[1]
                padn = len(pt) - n
                if not (1 <= padn <= 16) or pt[n:] != b"A" * padn:
                    self.violate("C05", "callback_padding", f"padlen={padn}",
                                 f"callback plaintext of {n} bytes padded with {pt[n:]!r}")

    # ------------------------------------------------------------------ run
    def execute(self):
        from dissect.cobaltstrike.beacon import BeaconConfig
        plan = self.plan
        block = config_block(self.cfg)
        self.bconfig = BeaconConfig(block)
        self.twin = BeaconConfig(block)
        self.twin_snapshot = snapshot_config(self.twin)
        k = self.kernel
        import logging
        if not core.DEBUG_LOG_ON:
            logging.disable(logging.CRITICAL)
        with Seams(self):
            try:
                for spec in plan["clients"]:
                    self.start_client(spec["k"], spec, spec.get("start_at_us", 0), 1)
                for op in plan.get("operator", []):
                    k.at(op["at_us"], self._operator, op)
                for nz in plan.get("noise", []):
                    k.at(nz["at_us"], self._noise, nz)
                lim = plan["limits"]
                why = k.run(lim["deadline_us"], lim["max_events"])
                if why == "deadline" and self._pending_tasks():
                    # bounded liveness: keep going (fault-free tail) until every queue drained or the bound is hit
                    self.hard_limit = lim["deadline_us"] + self._liveness_bound_us()
                    why = k.run(self.hard_limit, lim["max_events"] + 40 * self._pending_tasks() + 200,
                                while_cond=self._pending_tasks)
                    why = {"condition": "drained", "deadline": "liveness_bound"}.get(why, why)
                self.res.log.log("end", why, k.now, k.events)
                self.end_reason = why
            finally:
                k.shutdown()
            self._identity_probe()
            self._probe_run_after_rejected_id()
        self.res.sim_time_us = k.now
        self.after_run()

    def _identity_probe(self):
        """Same beacon id => same session keys, whatever the other run() options are (dry runs, still inside the seams)."""
        from dissect.cobaltstrike.client import HttpBeaconClient
        for spec in self.plan["clients"]:
            req = spec["run"].get("beacon_id")
            st = self.clients.get(spec["k"])
            if req is None or st is None or st.get("rejected") is not None or not st["keys"]:
                continue
            variants = [dict(pid=None), dict(pid=31337, user="someone.else", computer="OTHER-PC", process="x.exe", arch="x86",
                                             internal_ip="10.9.8.7", high_integrity=True, sleeptime=1234, jitter=3)]
            seen = set(st["keys"])
            for kw in variants:
                c = HttpBeaconClient()
                c.logger = _NullLogger()
                try:
                    c.run(self.bconfig, dry_run=True, beacon_id=req, **kw)
                except Exception as e:  # noqa: BLE001
                    self.violate("C19", "dry_run_raised", type(e).__name__, f"dry run with beacon_id={req} and {kw} raised {e!r}")
                    break
                self.res.probes["identity_probe"] += 1
                seen.add(bytes(c.aes_rand))
                if c.beacon_id != st["ids"][0]:
                    self.violate("C19", "beacon_id_depends_on_options", f"beacon_id {c.beacon_id} with options {kw}, {st['ids'][0]} in the session")
                import hashlib
                d = hashlib.sha256(c.aes_rand).digest()
                if (c.aes_key, c.hmac_key) != (d[:16], d[16:]):
                    self.violate("C19", "client_key_split", "client aes/hmac keys are not the halves of SHA-256(aes_rand)")
            # requesting the id the client actually presents (the normalised one) must give the same session keys
            try:
                c = HttpBeaconClient()
                c.logger = _NullLogger()
                c.run(self.bconfig, dry_run=True, beacon_id=st["ids"][0])
                if c.beacon_id == st["ids"][0] and bytes(c.aes_rand) not in seen:
                    self.violate("C19", "session_keys_depend_on_requested_id",
                                 f"requested id {req} is presented as {st['ids'][0]}, but requesting {st['ids'][0]} directly gives "
                                 f"other session keys")
            except Exception as e:  # noqa: BLE001
                self.violate("C19", "dry_run_raised", type(e).__name__, f"dry run with beacon_id={st['ids'][0]} raised {e!r}")
            # the same client OBJECT run again with another id must use that id's keys everywhere
            c = HttpBeaconClient()
            c.logger = _NullLogger()
            try:
                other_id = (req + 2) % (2 ** 31)
                c.run(self.bconfig, dry_run=True, beacon_id=other_id)
                c.run(self.bconfig, dry_run=True, beacon_id=req)
                k_ = c.c2http.beacon_keys
                if bytes(c.aes_rand) not in seen or (k_.aes_key, k_.hmac_key) != (c.aes_key, c.hmac_key) \
                        or bytes(c.metadata.aes_rand) != bytes(c.aes_rand):
                    self.violate("C19", "stale_keys_on_rerun_of_client_object",
                                 f"client object run first with id {other_id} then with {req}: packet keys/aes_rand are not those of id {req}")
            except Exception as e:  # noqa: BLE001
                self.violate("C19", "dry_run_raised", type(e).__name__, f"second run() of one client object raised {e!r}")
            if len(seen) > 1:
                self.violate("C19", "session_keys_depend_on_options",
                             f"beacon id {req}: {len(seen)} different aes_rand values across the session and dry runs with other options "
                             f"(pid given / omitted, other names)")

    def _probe_run_after_rejected_id(self):
        """One client object is asked for an id it has to refuse, the refusal is handled, and the object is then run without
        an id (it picks one itself): nothing of the refused request may be left behind."""
        from dissect.cobaltstrike.client import HttpBeaconClient
        bad = [-1, 2 ** 31, 2 ** 32 - 1][core.draw(self.run_seed, "badid") % 3]
        c = HttpBeaconClient()
        c.logger = _NullLogger()
        try:
            c.run(self.bconfig, dry_run=True, beacon_id=bad)
            return          # (whether such an id is refused is judged where sessions are started with it)
        except ValueError:
            pass
        except Exception:  # noqa: BLE001
            return
        self.res.probes["run_without_id_after_rejected_id"] += 1
        try:
            c.run(self.bconfig, dry_run=True)
        except Exception as e:  # noqa: BLE001
            self.violate("C19", "run_without_id_fails_after_rejected_id", type(e).__name__,
                         f"a client object whose run(beacon_id={bad}) was refused with ValueError raised {e!r} when run again "
                         f"without a beacon id")
            return
        if not (0 <= c.beacon_id < 2 ** 31 and c.beacon_id % 2 == 0 and int(c.metadata.bid) == c.beacon_id):
            self.violate("C19", "self_chosen_id_invalid_after_rejected_id",
                         f"after a refused run(beacon_id={bad}) the same object, run without an id, presents {c.beacon_id}")

    def _pending_tasks(self) -> int:
        n = 0
        for kk, st in self.clients.items():
            a = st["actor"]
            if a.done:
                continue
            bid = self._bid_of(kk)
            n += len(self.server.queues.get(bid) or [])
        return n

    def _liveness_bound_us(self) -> int:
        sleeps = [self.cfg["sleeptime"]]
        for spec in self.plan["clients"]:
            if "sleeptime" in spec["run"]:
                sleeps.append(spec["run"]["sleeptime"])
            for reg in spec.get("handlers", []):
                h = reg[2] if reg[0] == "handle" else reg[1]
                if h.get("kind") == "setsleep":
                    sleeps.append(h["sleeptime"])
            for h in (spec.get("methods") or {}).values():
                if h.get("kind") == "setsleep":
                    sleeps.append(h["sleeptime"])
        nfaults = len(self.plan.get("faults", []))
        return (self._pending_tasks() + 3 + nfaults) * max(sleeps) * 1000 + (2 + nfaults) * self.net["timeout_us"]

    def _operator(self, op):
        kk = op["client"]
        st = self.clients.get(kk)
        if "task" in op:
            bid = self._bid_of(kk)
            if bid is None:
                return
            cmd, data = op["task"]
            self.server.enqueue(bid, {"cmd": cmd, "data": unhx(data), "op": op.get("id")})
            st.setdefault("queued", []).append((cmd, unhx(data)))
            self.res.log.log("operator_task", kk, cmd)
        elif "callbacks" in op:
            self._raw_post(op)
        elif "unsolicited_task" in op:
            # a task response on the wire that no library client ever receives (another connection of the same beacon /
            # a capture without the matching request): the passive decoders must decode it like any other, whatever the
            # command id is - the real client could not be given ids outside BeaconCommand (its dispatcher rejects them)
            bid = self._bid_of(kk)
            sess = self.server.sessions.get(bid)
            if sess is None or st is None or not st["keys"]:
                return
            cmd, data = op["unsolicited_task"]
            epoch = self.epoch0 + self.kernel.now // 1_000_000
            self.server.resp_n += 1
            rw = self.server.task_response(sess, {"cmd": cmd, "data": unhx(data)}, epoch, {})
            self.tap.append(TapRecord(rw, "get_resp", kk, [("task", epoch, cmd, unhx(data))], False, None))
            self.res.log.log("unsolicited_task", kk, cmd)
            self.res.probes["unsolicited_task_response"] += 1
            if cmd not in _cmd_names():
                self.res.probes["task_with_unknown_command_id"] += 1
        elif op.get("restart"):
            self.res.faults["restart"] += 1
            a = st["actor"]
            self.last_fault_time = max(self.last_fault_time, self.kernel.now)
            if st.get("phase") == "get" and a.parked_in == "request":
                self.res.probes["restart_during_request"] += 1
            was_alive = not a.done
            self.kernel.kill(a)
            spec = next(s for s in self.plan["clients"] if s["k"] == kk)
            self.res.log.log("restart", kk, was_alive)
            st["dispatch_epoch"] = st.get("dispatch_epoch", 0) + 1
            self.start_client(kk, spec, self.kernel.now + op.get("delay_us", 1000), st["incarnations"] + 1,
                              reuse_object=bool(op.get("reuse_object")), run_override=op.get("run_override"))

    def _raw_post(self, op):
        """Raw beacon: a POST carrying SEVERAL framed callbacks (what real beacons do, the library client never does),
        built with the library's primitives for an existing session and put on the wire by the independent serialiser."""
        from dissect.cobaltstrike.c2 import ClientC2Data, encrypt_packet
        from dissect.cobaltstrike.c_c2 import CallbackPacket, c2struct
        BeaconCallback = c2struct.BeaconCallback     # the struct's own enum type: represents ids outside the Python IntEnum too
        kk = op["client"]
        st = self.clients.get(kk)
        if st is None or not st["keys"] or getattr(st["obj"], "c2http", None) is None or st["actor"].done:
            return
        c = st["obj"]
        cbs = [(cb, unhx(data)) for cb, data in op["callbacks"]]
        frames = b""
        for i, (cb, data) in enumerate(cbs):
            pkt = CallbackPacket(counter=9000 + i, size=len(data), callback=BeaconCallback(cb), data=data)
            frames += encrypt_packet(pkt.dumps(), **c.c2http.beacon_keys._asdict()).dumps()
        req = c.c2http.transform_submit.transform(ClientC2Data(id=str(c.beacon_id).encode(), output=frames),
                                                  request=c._initial_post_request())
        wire = rc.serialize_request(req.method, req.uri, list(req.params.items()), list(req.headers.items()), req.body)
        outgoing = ("post", cbs, c.beacon_id)
        epoch = self.epoch0 + self.kernel.now // 1_000_000
        ridx = len(self.tap)
        rw, inf = self.server.handle(wire, self.kernel.now, epoch)
        self.res.log.log("raw_post", kk, len(cbs), inf.get("error"))
        self.tap.append(TapRecord(wire, "post_req", kk, self._truth("post", outgoing, st), False))
        self._peer_oracles(kk, st, inf.get("kind"), inf, outgoing, False, wire)
        self.tap.append(TapRecord(rw, "post_resp" if not inf.get("error") else "err_resp", kk, [], False, ridx))
        st.setdefault("delivered_cbs", []).extend(cbs)
        self.res.probes["multi_frame_post"] += 1

    def _bid_of(self, kk):
        spec = next(s for s in self.plan["clients"] if s["k"] == kk)
        b = spec["run"].get("beacon_id")
        if b is None:
            st = self.clients.get(kk)
            return st["obj"].beacon_id if st and hasattr(st["obj"], "beacon_id") else None
        nb = (b - b % 2) & 0xFFFFFFFF
        return nb

    def _noise(self, nz):
        if "replay" in nz:
            # a genuine beacon message seen earlier, sent again with another verb or under a URI that merely contains the
            # beacon URI: routing is by verb AND prefix, so this is an unrelated request although its payload is perfect
            want_kind = nz["replay"] + "_req"
            src = next((r for r in reversed(self.tap) if r.kind == want_kind and not r.corrupted and r.client is not None), None)
            if src is None:
                return
            line, _, rest = src.wire.partition(b"\r\n")
            method, _, tail = line.partition(b" ")
            if nz["how"] == "verb":
                others = [v for v in (b"HEAD", b"OPTIONS", b"PATCH", b"DELETE", b"GET", b"POST", b"PUT")
                          if v not in (self.server.verb_get, self.server.verb_post)]
                method = others[core.draw(self.run_seed, "noise", nz["at_us"]) % len(others)]
            else:
                tail = b"/zz" + tail
            wire = method + b" " + tail + b"\r\n" + rest
            try:
                if self.server.classify(rc.parse_wire(wire)) is not None:
                    return      # (a profile whose other route happens to match: not an unrelated request)
            except Exception:
                return
            nz = dict(nz, wire=hx(wire), note="replay_" + nz["how"])
            self.res.probes["noise_replayed_beacon_message"] += 1
        wire = unhx(nz["wire"])
        rw, inf = self.server.handle(wire, self.kernel.now, self.epoch0)
        ridx = len(self.tap)
        self.tap.append(TapRecord(wire, "noise_req", None, [], False, note=nz.get("note", "")))
        self.tap.append(TapRecord(rw, "noise_resp", None, [], False, ridx))
        self.res.faults["noise"] += 1
        if inf.get("kind") is not None and not inf.get("error"):
            raise core.HarnessError(f"noise request matched a beacon route: {wire[:80]!r}")

    # ------------------------------------------------------------------ after-run oracles
    def _probes(self):
        r = self.res
        ntasks = sum(len(st["received"]) for st in self.clients.values())
        ncb = sum(len(v) for v in self.server.received_callbacks.values())
        r.extra["checkins"] += sum(s.checkins for s in self.server.sessions.values())
        r.extra["tasks_received"] += ntasks
        r.extra["callbacks_decoded_by_peer"] += ncb
        r.extra["tap_messages"] += len(self.tap)
        r.cases = max(1, len(self.tap))
        fired = sum(v for k, v in r.faults.items() if k != "noise")
        r.nontrivial = bool(ntasks and ncb and (fired or len(self.clients) > 1))
        for kk, st in self.clients.items():
            if st["incarnations"] > 1:
                r.probes["client_restarted"] += 1
            if st.get("lost_tasks"):
                r.probes["task_lost_in_flight_seen"] += 1
            if any(n >= 3 for n in Counter(c for _, c, _ in st["received"]).values()):
                r.probes["same_command_3_times"] += 1
            if len(st["received"]) >= 3:
                r.probes["handler_on_kth_task_k>=3"] += 1
        for prog in ("get", "post", "server"):
            for stp in self.cfg[prog]:
                r.probes["op_" + stp[0]] += 1
        if any(f.get("kind") == "dup_request" for f in self.plan.get("faults", [])) and r.faults.get("dup_request"):
            r.probes["metadata_cache_hit_possible"] += 1
        if len(self.clients) > 1:
            r.probes["multi_client"] += 1
        if any(rec.kind == "noise_req" for rec in self.tap):
            r.probes["noise_on_wire"] += 1
        if self.cfg["peer"]["strip_b64url_pad"] and any(s[0] == "base64url" for s in self.cfg["server"]):
            r.probes["peer_unpadded_base64url"] += 1

    def after_run(self):
        self._probes()
        self._check_clients()
        self._check_config_unchanged()
        self._check_dispatch()
        self._check_wire_parse()
        self._check_passive_decode()
        self._check_shared_rsa_decoder()
        self._check_liveness()

    def _check_clients(self):
        for kk, st in self.clients.items():
            a = st["actor"]
            spec = next(s for s in self.plan["clients"] if s["k"] == kk)
            err = a.error
            if err is not None and not isinstance(err, Killed):
                lr_corrupt = any(f["kind"] == "corrupt_response" and f["client"] == kk for f in self.plan.get("faults", []))
                req = spec["run"].get("beacon_id")
                if isinstance(err, ValueError) and "beacon_id" in str(err) and not self.req_counter[kk]:
                    st["rejected"] = str(err)
                    self.res.log.log("client_rejected", kk, str(err))
                    if req is not None and 0 <= req <= 0x7FFFFFFF:
                        self.violate("C19", "valid_beacon_id_rejected", f"run() rejected beacon_id={req}: {err}")
                    if req is None:
                        self.violate("C19", "self_chosen_beacon_id_rejected", f"run() without beacon_id picked an id it rejects itself: {err}")
                    continue
                if isinstance(err, ValueError) and "too long" in str(err):
                    st["rejected"] = str(err)
                    self.violate("C19", "metadata_does_not_fit_rsa_key", self.cfg["rsa"][:7],
                                 f"client {kk} (user={spec['run'].get('user')!r}, computer={spec['run'].get('computer')!r}) could not "
                                 f"encrypt its metadata for {self.cfg['rsa']}: {err}")
                    continue
                if lr_corrupt:
                    self.res.probes["client_crashed_on_corrupt_response"] += 1
                    continue
                self.violate("C07", "client_crashed", type(err).__name__,
                             f"client {kk} terminated with {type(err).__name__}: {err!r:.300} without a corrupting fault")
            if a.done and err is None and not a.kill_requested:
                self.violate("C19", "beacon_loop_returned",
                             f"client {kk}: run() returned although nobody stopped the client (the beacon loop runs until interrupted)")
            req = spec["run"].get("beacon_id")
            if req is not None and st.get("rejected") is None and hasattr(st["obj"], "beacon_id"):
                want = req - req % 2
                if not (0 <= req <= 0xFFFFFFFF) or want > 0x7FFFFFFF:
                    pass  # out-of-range requests: only "even and in range" is demanded (checked at the peer)
                elif st["obj"].beacon_id != want:
                    self.violate("C19", "beacon_id_normalisation", f"requested {req}, client presents {st['obj'].beacon_id}, expected {want}")
            if len(set(st["ids"])) > 1:
                self.violate("C19", "beacon_id_changed", f"client {kk} presented ids {sorted(set(st['ids']))} across check-ins/restarts")
            if len(set(st["keys"])) > 1:
                self.violate("C19", "session_keys_changed", f"client {kk} used {len(set(st['keys']))} different aes_rand values for one beacon id")

    def _check_config_unchanged(self):
        now = snapshot_config(self.bconfig)
        if now != self.twin_snapshot:
            diffs = []
            for name in ("settings", "settings_by_index", "raw_settings", "raw_settings_by_index"):
                a, b = getattr(self.bconfig, name), getattr(self.twin, name)
                for key in a:
                    if repr(a[key]) != repr(b[key]):
                        diffs.append(f"{name}[{key}]: {b[key]!r:.120} -> {a[key]!r:.120}")
            self.violate("C14", "config_changed_by_session", (diffs[0].split(":")[0] if diffs else "other"),
                         "shared BeaconConfig differs from its never-used twin after the session: " + "; ".join(diffs[:3]))

    def _check_dispatch(self):
        names = _cmd_names()
        for kk, st in self.clients.items():
            spec = next(s for s in self.plan["clients"] if s["k"] == kk)
            # reference registry
            specific: Dict[int, List[str]] = {}
            catch: List[str] = []
            for reg in spec.get("handlers", []):
                if reg[0] == "handle":
                    specific.setdefault(reg[1], []).append(f"handle:{reg[1]}#{reg[3] if len(reg) > 3 else 0}")
                elif reg[0] == "catch_all":
                    catch.append(f"catch_all#{reg[2] if len(reg) > 2 else 0}")
            methods = spec.get("methods") or {}
            by_task: Dict[int, List[str]] = {}
            for tno, hid in st["dispatch"]:
                by_task.setdefault(tno, []).append(hid)
            for i, (epoch, cmd, data) in enumerate(st["received"], start=1):
                want = list(specific.get(cmd, []))
                # late registrations made while handling an EARLIER task by the same client OBJECT apply
                inc_i = st["received_inc"][i - 1]
                want += [hid for (inc, tno, c_, hid) in st["late_regs"] if c_ == cmd and inc == inc_i and tno < i]
                nm = names.get(cmd)
                if nm in methods:
                    want.append(f"method:{nm}")
                if not want:
                    want = list(catch) + [hid for (inc, tno, c_, hid) in st["late_regs"] if c_ == -1 and inc == inc_i and tno < i]
                    if "catch_all" in methods:
                        want.append("method:catch_all")
                got = by_task.get(i, [])
                if Counter(got) != Counter(want):
                    over = any(v > 1 for v in Counter(got).values())
                    kind = "dispatched_more_than_once" if over else ("handler_missing" if len(got) < len(want) else "wrong_handlers")
                    # a crash/kill in the middle of a dispatch legitimately cuts it short
                    if kind == "handler_missing" and i == len(st["received"]) and (st["actor"].done or st["incarnations"] > 1):
                        continue
                    if kind == "handler_missing" and st["incarnations"] > 1:
                        continue
                    self.violate("C19", kind, f"task_no={'1' if i == 1 else '2+' }",
                                 f"client {kk}: task #{i} (command {cmd}) dispatched to {got}, registry prescribes {want}")
                    break

    def _check_wire_parse(self):
        from dissect.cobaltstrike.c2 import HttpRequest, HttpResponse, parse_raw_http
        for rec in self.tap:
            if rec.corrupted:
                continue
            try:
                p = parse_raw_http(rec.wire)
            except Exception as e:
                self.violate("C16", "session_message_rejected", rec.kind, type(e).__name__,
                             f"parse_raw_http raised {e!r} on a {rec.kind} message: {rec.wire[:200]!r}")
                continue
            mine = rc.parse_wire(rec.wire)
            if isinstance(mine, rc.WireRequest):
                ok = isinstance(p, HttpRequest) and p.method == mine.method and p.uri == mine.path and p.body == mine.body
                hd = dict(mine.headers)
                if ok and len(hd) == len(mine.headers):
                    ok = dict(p.headers) == hd
                pd = dict(mine.params)
                if ok and len(pd) == len(mine.params) and all(v for v in pd.values()):
                    ok = dict(p.params) == pd
                if not ok:
                    self.violate("C16", "request_parts_differ", rec.kind,
                                 f"parse_raw_http({rec.wire[:300]!r}) -> {p!r:.400}; independent parser: method={mine.method!r} "
                                 f"path={mine.path!r} params={mine.params!r:.200} headers={mine.headers!r:.300}")
            else:
                ok = isinstance(p, HttpResponse) and p.status == mine.status and p.reason == mine.reason and p.body == mine.body \
                    and dict(p.headers) == dict(mine.headers)
                if not ok:
                    self.violate("C16", "response_parts_differ", rec.kind, f"parse_raw_http({rec.wire[:200]!r}) -> {p!r:.300}")

    def _decoders_for(self, kk, st):
        from dissect.cobaltstrike.c2 import C2Http
        out = {}
        aes_rand = st["keys"][0] if st["keys"] else None
        if aes_rand is None:
            return out
        aes_key, hmac_key = rc.derive_keys(aes_rand)
        out["rsa"] = C2Http(self.bconfig, rsa_private_key=self.priv)
        # (key material is bytes-like: every other run hands the random bytes over as a bytearray)
        out["aes_rand"] = C2Http(self.bconfig, aes_rand=bytearray(aes_rand) if core.draw(self.run_seed, "randtype", kk) % 2 else aes_rand)
        out["aes_hmac"] = C2Http(self.bconfig, aes_key=aes_key, hmac_key=hmac_key)
        out["aes_noverify"] = C2Http(self.bconfig, aes_key=aes_key, verify_hmac=False)
        # the RSA key together with partial symmetric material: whatever is missing has to come from the first check-in
        out["rsa+aes_key"] = C2Http(self.bconfig, aes_key=aes_key, rsa_private_key=self.priv)
        # two more observers with full keys that see the same messages differently (routing is by verb + URI only, and a
        # keyed decoder needs no earlier message): one whose capture has task responses arriving late (overlapping
        # connections: GET, POST, POST response, then the GET's response), one whose capture starts in mid-session
        out["aes_hmac~delayed"] = C2Http(self.bconfig, aes_key=aes_key, hmac_key=hmac_key)
        out["aes_hmac~latestart"] = C2Http(self.bconfig, aes_key=aes_key, hmac_key=hmac_key)
        # the RSA key alone on a capture that starts in mid-session: nothing decodes until the first check-in it sees
        # (ValueError each time), everything does afterwards
        out["rsa~latestart"] = C2Http(self.bconfig, rsa_private_key=self.priv)
        return out

    def _tap_order(self, kk, vname):
        idxs = list(range(len(self.tap)))
        if vname.endswith("~delayed"):
            out = []
            held = []   # (release_after_n_more_records_of_this_client, idx)
            for i in idxs:
                rec = self.tap[i]
                mine = rec.client == kk
                if mine and rec.kind == "get_resp" and rec.truth and core.draw(self.run_seed, "tap", kk, i) % 2 == 0:
                    held.append([1 + core.draw(self.run_seed, "tapn", kk, i) % 3, i])
                    self.res.probes["tap_task_response_delayed"] += 1
                    continue
                out.append(i)
                if mine:
                    for h in held:
                        h[0] -= 1
                    for h in [h for h in held if h[0] <= 0]:
                        out.append(h[1])
                        held.remove(h)
            out += [h[1] for h in held]
            return out
        if vname.endswith("~latestart"):
            mine = [i for i in idxs if self.tap[i].client == kk and self.tap[i].kind in ("get_req", "post_req")]
            if len(mine) < 2:
                return idxs
            start = mine[1 + core.draw(self.run_seed, "tap0", kk) % (len(mine) - 1)]
            self.res.probes["tap_starts_mid_session"] += 1
            return [i for i in idxs if i >= start]
        return idxs

    def _check_passive_decode(self):
        from dissect.cobaltstrike.c2 import HttpRequest, HttpResponse, parse_raw_http
        from dissect.cobaltstrike.c_c2 import BeaconMetadata, CallbackPacket, TaskPacket
        submit_verb = self.cfg["verb_post"].encode()
        for kk, st in self.clients.items():
            decs = self._decoders_for(kk, st)
            if not decs:
                continue
            for vname, dec in decs.items():
                seen_checkin = False
                last_ok = None
                seq_rsa = []
                order = self._tap_order(kk, vname)
                first = order[0] if order else 0
                for idx in order:
                    rec = self.tap[idx]
                    if rec.client not in (kk, None):
                        continue
                    if rec.kind in ("err_resp", "noise_resp"):
                        continue  # no routing promise exists for responses
                    try:
                        http = parse_raw_http(rec.wire)
                    except ValueError:
                        continue
                    except Exception:
                        continue
                    if isinstance(http, HttpResponse) and rec.req_index is not None and rec.req_index >= first:
                        try:
                            rq = parse_raw_http(self.tap[rec.req_index].wire)
                            http = http._replace(request=rq)
                        except Exception:
                            pass
                    if isinstance(http, HttpResponse) and http.request is not None and http.request.method == submit_verb \
                            and rec.kind == "post_resp":
                        continue
                    req_corrupted = rec.corrupted or (rec.req_index is not None and self.tap[rec.req_index].corrupted)
                    try:
                        got = list(dec.iter_recover_http(http))
                        exc = None
                    except Exception as e:  # noqa: BLE001
                        got, exc = None, e
                    self.res.log.log("decode", kk, vname, idx, rec.kind, type(exc).__name__ if exc else len(got))
                    if vname == "rsa":
                        seq_rsa.append((idx, http, type(exc).__name__ if exc else repr(_show(got))))
                    # ---- expectations
                    if rec.kind == "noise_req" or rec.kind == "unknown_req":
                        if rec.corrupted:
                            continue
                        if exc is None or not isinstance(exc, ValueError):
                            self.violate("C07", "unrelated_request_not_rejected", vname,
                                         f"decoder {vname} on unrelated request {rec.wire[:120]!r}: "
                                         f"{'decoded ' + repr(got)[:200] if exc is None else repr(exc)}")
                        continue
                    truth = rec.truth
                    if rec.kind == "get_req":
                        if not vname.startswith("rsa"):
                            want = []
                        else:
                            want = truth
                            seen_checkin = seen_checkin or (exc is None)
                    elif rec.kind == "get_resp" or rec.kind == "post_req":
                        want = truth
                    else:
                        want = []
                    if req_corrupted and rec.kind in ("get_req", "post_req"):
                        if exc is not None or vname == "aes_noverify":
                            continue
                        if not _subset_packets(got, want):
                            self.violate("C07" if rec.kind == "get_req" else "C05", "corrupted_message_decoded_differently", vname, rec.kind,
                                         f"corrupted {rec.kind} decoded by {vname} to {got!r:.300}, original {want!r:.300}")
                        continue
                    if exc is not None:
                        if vname.startswith("rsa") and not seen_checkin and isinstance(exc, ValueError) and rec.kind != "get_req":
                            continue  # a decoder that depends on the RSA key has no (complete) keys before the first check-in
                        self.violate("C07", "decoder_raised", vname, rec.kind, type(exc).__name__, _term_sig(self.cfg, rec.kind),
                                     f"decoder {vname} raised {type(exc).__name__}: {exc!r:.300} on an intact {rec.kind} of client {kk}; "
                                     f"programs get={self.cfg['get']} post={self.cfg['post']} server={self.cfg['server']}")
                        break
                    if not _same_packets(got, want):
                        self.violate("C07", "decoded_packets_differ", vname, rec.kind, _term_sig(self.cfg, rec.kind),
                                     f"decoder {vname} on {rec.kind} of client {kk}: got {_show(got)!r:.400} want {want!r:.400}")
                        break
                    if got and rec.kind in ("get_resp", "post_req") and not req_corrupted:
                        last_ok = (idx, http, want)
                if vname == "rsa" and len(seq_rsa) > 1 and not self.res.violations:
                    # a caller that asks a (fresh, RSA-only) decoder for the iterators of all messages FIRST and consumes them
                    # afterwards, in order: decoding is lazy, so this is the same schedule of work - and the same result
                    from dissect.cobaltstrike.c2 import C2Http
                    d2 = C2Http(self.bconfig, rsa_private_key=self.priv)
                    its = [(idx_, d2.iter_recover_http(h_), o_) for idx_, h_, o_ in seq_rsa]
                    self.res.probes["iterators_created_before_consumption"] += 1
                    for idx_, it_, o_ in its:
                        try:
                            o2 = repr(_show(list(it_)))
                        except Exception as e:  # noqa: BLE001
                            o2 = type(e).__name__
                        if o2 != o_:
                            self.violate("C07", "deferred_consumption_differs", "rsa",
                                         f"RSA-only decoder, iterators of {len(its)} messages created first and consumed in order: message "
                                         f"{idx_} of client {kk} gives {o2[:200]}, decoded message by message it gave {o_[:200]}")
                            break
                # the same decoder object, shown a message it has already decoded, now with other keys passed per call
                # (documented `keys=` argument): a changed HMAC key is rejected and yields no plaintext - whatever the object
                # has seen before - and the attempt leaves the decoder as it was
                if last_ok is not None and vname in ("aes_hmac", "aes_rand", "rsa", "aes_hmac~delayed"):
                    from dissect.cobaltstrike.c2 import BeaconKeys
                    idx, http, want = last_ok
                    if isinstance(http, HttpResponse) and not self._check_tampered_twin(kk, vname, dec, idx, http, want):
                        continue
                    aes_key, hmac_key = rc.derive_keys(st["keys"][0])
                    bit = core.draw(self.run_seed, "wrongkey", kk, vname) % 128
                    bad = bytearray(hmac_key)
                    bad[bit >> 3] ^= 1 << (bit & 7)
                    self.res.probes["used_decoder_other_keys"] += 1
                    for label, keys in (("changed_hmac_key", BeaconKeys(aes_key, bytes(bad))), ("missing_hmac_key", BeaconKeys(aes_key, None))):
                        try:
                            out = list(dec.iter_recover_http(http, keys=keys))
                            exc = None
                        except Exception as e:  # noqa: BLE001
                            out, exc = None, e
                        self.res.log.log("decode_other_keys", kk, vname, idx, label, type(exc).__name__ if exc else len(out))
                        if not isinstance(exc, ValueError):
                            self.violate("C05", "used_decoder_accepts_other_keys", label, vname,
                                         f"decoder {vname}, after decoding message {idx} of client {kk}, shown the same message with "
                                         f"keys= carrying a {label.replace('_', ' ')}: "
                                         f"{'returned ' + repr(_show(out))[:200] if exc is None else 'raised ' + repr(exc)[:200]} "
                                         f"instead of raising ValueError")
                            break
                    else:
                        try:
                            again = list(dec.iter_recover_http(http))
                        except Exception as e:  # noqa: BLE001
                            again = e
                        if isinstance(again, Exception) or not _same_packets(again, want):
                            self.violate("C07", "decoder_changed_by_rejected_keys", vname,
                                         f"decoder {vname} no longer decodes message {idx} of client {kk} after a call with other keys= "
                                         f"was rejected: {again!r:.300}")

    def _check_tampered_twin(self, kk, vname, dec, idx, http, want) -> bool:
        """The decoder object has just decoded the task response `http`. It is now shown a twin of that message whose
        ciphertext differs in one bit while the signature is the genuine one (re-encoded with the reference codec under the
        server program): rejected with ValueError, whatever the object has authenticated before; the genuine message still
        decodes afterwards."""
        from dissect.cobaltstrike.c2 import HttpResponse
        steps = self.cfg["server"]
        try:
            raw = rc.ref_decode_response_body(steps, http.body)
        except rc.RefDecodeError:
            return True
        if len(raw) < 32:
            return True
        pos = core.draw(self.run_seed, "twin", kk, vname) % (len(raw) - 16)
        bit = core.draw(self.run_seed, "twinbit", kk, vname) % 8
        tampered = raw[:pos] + bytes([raw[pos] ^ (1 << bit)]) + raw[pos + 1:]
        nm = sum(1 for s_ in steps if s_[0] == "mask")
        mks = [core.draw(self.run_seed, "twinmask", kk, vname, j).to_bytes(8, "big")[-4:] for j in range(nm)]
        body2 = rc.ref_encode_response_body(steps, tampered, mks, False)
        twin = HttpResponse(status=http.status, reason=http.reason, headers=dict(http.headers), body=body2, request=http.request)
        self.res.probes["used_decoder_tampered_twin"] += 1
        try:
            out = list(dec.iter_recover_http(twin))
            exc = None
        except Exception as e:  # noqa: BLE001
            out, exc = None, e
        self.res.log.log("decode_twin", kk, vname, idx, type(exc).__name__ if exc else len(out))
        if not isinstance(exc, ValueError):
            self.violate("C05", "used_decoder_accepts_tampered_twin", vname,
                         f"decoder {vname}, after decoding task response {idx} of client {kk}, shown the same response with bit {bit} of "
                         f"ciphertext byte {pos} flipped under the genuine signature: "
                         f"{'returned ' + repr(_show(out))[:200] if exc is None else 'raised ' + repr(exc)[:200]} instead of raising ValueError")
            return False
        try:
            again = list(dec.iter_recover_http(http))
        except Exception as e:  # noqa: BLE001
            again = e
        if isinstance(again, Exception) or not _same_packets(again, want):
            self.violate("C07", "decoder_changed_by_rejected_twin", vname,
                         f"decoder {vname} no longer decodes task response {idx} of client {kk} after a tampered twin of it was "
                         f"rejected: {again!r:.300}")
            return False
        return True

    def _check_shared_rsa_decoder(self):
        """ONE decoder holding only the RSA key sees the traffic of all beacons: it follows the session of the beacon that
        checked in first (documented: other sessions need keys=), whose packets must keep decoding whatever other beacons
        do in between; every beacon's check-in still yields its metadata."""
        from dissect.cobaltstrike.c2 import C2Http, HttpResponse, parse_raw_http
        withkeys = [kk for kk, st in self.clients.items() if st["keys"]]
        if len(withkeys) < 2:
            return
        # the session it follows is that of the first check-in it is SHOWN (whether or not the server answered that one)
        first = next((r.client for r in self.tap if r.kind == "get_req" and not r.corrupted and r.client is not None), None)
        if first is None:
            return
        self.res.probes["shared_rsa_decoder"] += 1
        dec = C2Http(self.bconfig, rsa_private_key=self.priv)
        submit_verb = self.cfg["verb_post"].encode()
        seen = False
        for idx, rec in enumerate(self.tap):
            if rec.client is None or rec.kind in ("err_resp", "noise_resp", "post_resp", "unknown_req"):
                continue
            if rec.corrupted or (rec.req_index is not None and self.tap[rec.req_index].corrupted):
                continue
            try:
                got = list(dec.iter_recover_http(rec.wire))
                exc = None
            except Exception as e:  # noqa: BLE001
                got, exc = None, e
            self.res.log.log("shared_decode", rec.client, idx, rec.kind, type(exc).__name__ if exc else len(got))
            if rec.kind == "get_req":
                if exc is not None or not _same_packets(got, rec.truth):
                    self.violate("C07", "shared_rsa_decoder", "checkin_not_decoded",
                                 f"a decoder with the RSA key only, fed the traffic of {len(withkeys)} beacons, on the check-in of "
                                 f"client {rec.client}: {exc!r:.200} / {_show(got) if got is not None else None!r:.200}, want {rec.truth!r:.200}")
                    return
                if rec.client == first:
                    seen = True
                continue
            if rec.client != first or not seen:
                continue
            if exc is not None or not _same_packets(got, rec.truth):
                self.violate("C07", "shared_rsa_decoder", "first_session_lost", rec.kind,
                             f"a decoder with the RSA key only follows the beacon that checked in first (client {first}); after other "
                             f"beacons' check-ins its {rec.kind} no longer decodes: {exc!r:.200} / "
                             f"{_show(got) if got is not None else None!r:.200}, want {rec.truth!r:.200}")
                return

    def _check_liveness(self):
        lim = self.plan["limits"]
        if getattr(self, "end_reason", "") in ("event_cap", "quiescent"):
            return
        for kk, st in self.clients.items():
            if st.get("rejected") is not None or st["actor"].error is not None and not isinstance(st["actor"].error, Killed):
                continue
            bid = self._bid_of(kk)
            q = self.server.queues.get(bid) or []
            if q and self.end_reason == "liveness_bound" and not a_done(st) \
                    and not any(v.sig[1] == "peer_cannot_decode" for v in self.res.violations):
                self.violate("C19", "tasks_left_in_queue",
                             f"{len(q)} task(s) still queued for client {kk} when the liveness bound expired "
                             f"(deadline {lim['deadline_us']} us + bound, now {self.kernel.now} us, last fault at {self.last_fault_time} us)")
            # conservation: every callback produced reached the server unless its POST was hit by a fault
            recv = Counter((cb, data) for _, cb, data in self.server.received_callbacks.get(bid, []))
            prod = Counter(st.get("delivered_cbs", []))   # callbacks whose POST reached the server (not still in flight)
            faulty_posts = any(f["client"] == kk for f in self.plan.get("faults", []))
            if not faulty_posts and st["incarnations"] == 1 and recv != prod:
                missing = list((prod - recv).elements())[:3]
                extra = list((recv - prod).elements())[:3]
                self.violate("C07", "callback_conservation", "missing" if missing else "extra",
                             f"client {kk}: callbacks produced but never decoded by the peer {missing!r:.200}; decoded but never produced {extra!r:.200}")


def a_done(st) -> bool:
    return st["actor"].done and st["actor"].error is not None


class _NullLogger:
    def __getattr__(self, name):
        return lambda *a, **k: None


def _prog_sig(steps) -> str:
    return "+".join(sorted({s[0] for s in steps}))


def _term_sig(cfg, kind) -> str:
    prog = cfg["get"] if kind.startswith("get_req") else cfg["post"] if kind.startswith("post") else cfg["server"]
    terms = [s[0] for s in prog if s[0] in rc.TERMINATIONS]
    stat = [s[0] for s in prog if s[0] in rc.STATIC]
    flags = []
    if "uri_append" in terms:
        flags.append("uri_append")
    if "_parameter" in stat:
        flags.append("_parameter")
    if any(s[0] == "append" and s[1] == "" for s in prog):
        flags.append("empty_append")
    return ",".join(flags) or "plain"


def _show(pkts):
    out = []
    for p in pkts or []:
        n = type(p).__name__
        out.append((n, {k: (v if not isinstance(v, bytes) else v[:24]) for k, v in list(p.__dict__.items())[:8]} if hasattr(p, "__dict__") else p))
    return out


def _same_packets(got, want) -> bool:
    """Library packet objects vs ground truth tuples recorded at the source."""
    if got is None or len(got) != len(want):
        return False
    for g, w in zip(got, want):
        tn = type(g).__name__
        if w[0] == "metadata":
            if tn != "BeaconMetadata" or w[1] is None:
                return tn == "BeaconMetadata" and w[1] is None
            for f, v in w[1].items():
                gv = getattr(g, f)
                gv = bytes(gv) if isinstance(gv, (bytes, bytearray)) else int(gv)
                if gv != v:
                    return False
        elif w[0] == "task":
            if tn != "TaskPacket" or (int(g.epoch), int(g.command), bytes(g.data)) != (w[1], w[2], w[3]):
                return False
        elif w[0] == "callback":
            if tn != "CallbackPacket" or (int(g.callback), bytes(g.data)) != (w[1], w[2]):
                return False
        else:
            return False
    return True


def _subset_packets(got, want) -> bool:
    """Every decoded packet is one of the packets that were sent (a damaged message may decode to fewer)."""
    if got is None:
        return True
    pool = list(want)
    for g in got:
        hit = next((i for i, w in enumerate(pool) if _same_packets([g], [w])), None)
        if hit is None:
            return False
        pool.pop(hit)
    return True


def _mutate(wire: bytes, f: dict) -> bytes:
    b = bytearray(wire)
    for off, mask in f.get("flips", []):
        if b:
            b[off % len(b)] ^= (mask & 0xFF) or 1
    if f.get("truncate") is not None and len(b):
        del b[f["truncate"] % len(b):]
    return bytes(b)
