"""World S kernel: discrete-event virtual time, baton-passed actor threads, and the clock / network / PRNG seams.

Exactly one thread runs at any moment: either the kernel or the one actor it has released. Actors (real
HttpBeaconClient.run() calls) only ever stop at a seam: time.sleep, httpx.request, or thread end.
"""
from __future__ import annotations

import hashlib
import heapq
import random as _random
import threading
from typing import Any, Callable, List, Optional

import httpx as _httpx

from dst import core


class Killed(KeyboardInterrupt):
    """Raised from a seam to stop a client the way run() documents (KeyboardInterrupt)."""


class Actor:
    def __init__(self, kernel: "Kernel", name: str, target: Callable[[], Any]):
        self.kernel = kernel
        self.name = name
        self.sem = threading.Semaphore(0)
        self.inbox: Any = None
        self.done = False
        self.error: Optional[BaseException] = None
        self.result: Any = None
        self.gen = 0           # wake-up generation: stale wake events are ignored
        self.parked_in: Optional[str] = None
        self.kill_requested = False
        self._target = target
        self.thread = threading.Thread(target=self._main, name=f"sim-{name}", daemon=True)
        self.data: dict = {}

    def _main(self):
        self.sem.acquire()
        try:
            v = self.inbox
            self.inbox = None
            if isinstance(v, BaseException):
                raise v
            if self.kill_requested:
                raise Killed()       # stopped before it ever ran (restart of a client whose start was still pending)
            self.result = self._target()
        except BaseException as e:  # noqa: BLE001 - recorded, judged by the world
            self.error = e
        finally:
            self.done = True
            self.parked_in = None
            self.kernel.ksem.release()

    # called on the actor's own thread
    def park(self, where: str):
        self.parked_in = where
        self.kernel.ksem.release()
        self.sem.acquire()
        self.parked_in = None
        v = self.inbox
        self.inbox = None
        if isinstance(v, BaseException):
            raise v
        return v

    # called on the kernel thread
    def resume(self, value: Any = None):
        if self.done:
            return
        self.inbox = value
        self.kernel.current = self
        self.sem.release()
        self.kernel.ksem.acquire()
        self.kernel.current = None


class Kernel:
    def __init__(self, run_seed: str, log: core.EventLog):
        self.run_seed = run_seed
        self.log = log
        self.now = 0                      # virtual microseconds
        self.seq = 0
        self.heap: List = []
        self.ksem = threading.Semaphore(0)
        self.current: Optional[Actor] = None
        self.actors: List[Actor] = []
        self.events = 0

    def at(self, t: int, fn: Callable, *args):
        self.seq += 1
        heapq.heappush(self.heap, (max(t, self.now), self.seq, fn, args))

    def after(self, d: int, fn: Callable, *args):
        self.at(self.now + max(0, d), fn, *args)

    def spawn(self, name: str, target: Callable[[], Any], start_at: int) -> Actor:
        a = Actor(self, name, target)
        self.actors.append(a)
        a.thread.start()
        self.at(start_at, a.resume, None)
        return a

    def wake(self, actor: Actor, gen: int, value: Any = None):
        """Scheduled wake-up; ignored when the actor was already woken otherwise (kill)."""
        if actor.done or gen != actor.gen or actor.parked_in is None:
            return
        actor.gen += 1
        actor.resume(value)

    def kill(self, actor: Actor):
        """Crash: the actor's current seam call raises KeyboardInterrupt right now."""
        if actor.done:
            return
        actor.kill_requested = True
        if actor.parked_in is not None:
            actor.gen += 1
            actor.resume(Killed())

    def run(self, deadline: int, max_events: int, while_cond=None) -> str:
        while self.heap:
            if while_cond is not None and not while_cond():
                return "condition"
            t, _, fn, args = self.heap[0]
            if t > deadline:
                return "deadline"
            if self.events >= max_events:
                return "event_cap"
            heapq.heappop(self.heap)
            self.now = t
            self.events += 1
            fn(*args)
        return "quiescent"

    def shutdown(self):
        """Stop every actor still parked (KeyboardInterrupt from its seam) and join all threads."""
        for a in self.actors:
            guard = 0
            while not a.done and guard < 50:
                guard += 1
                a.kill_requested = True
                if a.parked_in is not None:
                    a.gen += 1
                    a.resume(Killed())
                elif not a.thread.is_alive():
                    break
                else:  # never started
                    a.resume(Killed())
        stuck = []
        for a in self.actors:
            a.thread.join(timeout=5)
            if a.thread.is_alive():
                stuck.append(a.name)
        if stuck:
            raise core.HarnessError(f"actor threads did not terminate: {stuck}")


# --------------------------------------------------------------------------------------------- seams

class SimTime:
    """Replacement for the `time` module global of dissect.cobaltstrike.client."""

    def __init__(self, kernel: Kernel, world):
        self.kernel = kernel
        self.world = world

    def time(self) -> float:
        a = self.kernel.current
        off = a.data.get("clock_offset_s", 0) if a is not None else 0
        return self.world.epoch0 + self.kernel.now / 1e6 + off

    def sleep(self, seconds: float) -> None:
        k = self.kernel
        a = k.current
        if a is None:
            raise core.HarnessError("time.sleep called outside an actor")
        if a.kill_requested:
            raise Killed()
        self.world.on_sleep(a, seconds)
        us = int(round(max(0.0, seconds) * 1e6))
        k.at(k.now + us, k.wake, a, a.gen, None)
        a.park("sleep")

    def __getattr__(self, name):
        import time as _t
        return getattr(_t, name)


class SeededBytes:
    """Deterministic replacement for Crypto.Random.get_random_bytes (PKCS#1 v1.5 padding)."""

    def __init__(self, run_seed: str):
        self.seed = run_seed.encode()
        self.c = 0

    def __call__(self, n: int) -> bytes:
        out = b""
        while len(out) < n:
            out += hashlib.sha256(b"pkcs|" + self.seed + b"|%d" % self.c).digest()
            self.c += 1
        return out[:n]


class SimTransport(_httpx.BaseTransport):
    def __init__(self, world):
        self.world = world

    def handle_request(self, request: _httpx.Request) -> _httpx.Response:
        return self.world.net_exchange(request)


class HttpxShim:
    """Replacement for the `httpx` module global of dissect.cobaltstrike.client: request() runs the real
    httpx.Client request-building code with the simulated transport."""

    RequestError = _httpx.RequestError
    HTTPStatusError = _httpx.HTTPStatusError

    def __init__(self, world):
        self.world = world
        self._transport = SimTransport(world)

    def request(self, method, url, *, headers=None, params=None, content=None, verify=None, **kw):
        a = self.world.kernel.current
        if a is None:
            raise core.HarnessError("httpx.request called outside an actor")
        if a.kill_requested:
            raise Killed()
        if isinstance(method, bytes):
            method_s = method.decode("latin-1")
        else:
            method_s = method
        with _httpx.Client(transport=self._transport, trust_env=False) as c:
            return c.request(method_s, url, headers=headers, params=params, content=content)

    def __getattr__(self, name):
        return getattr(_httpx, name)


class ModuleLikeRandom(_random.Random):
    """The seeded generator that stands in for the `random` MODULE inside the library: besides the module-level functions
    (methods of the instance) it offers the classes the module exports, so that library code may build private generators."""
    Random = _random.Random
    SystemRandom = _random.SystemRandom


class EdgeBits:
    """The randomness seam of c2.py (mask keys): the run's seeded generator, except that one in ten 32-bit draws is a value
    at the edge of the 32-bit space (zero, zero bytes in any position, all ones) - each of them as legal as any other."""
    EDGES = (0, 0, 1, 0xFF, 0x100, 0xFFFF, 0x00FFFFFF, 0xFF000000, 0x01000000, 0xFFFFFFFF, 0x80000000, 0x7FFFFFFF, 0x00FF00FF)

    def __init__(self, rng):
        self._rng = rng
        self.edge_draws = 0

    def getrandbits(self, k):
        v = self._rng.getrandbits(k)
        if k == 32 and self._rng.random() < 0.1:
            self.edge_draws += 1
            return self._rng.choice(self.EDGES)
        return v

    def __getattr__(self, name):
        return getattr(self._rng, name)


class Seams:
    """Context manager that rebinds the module globals for one run and restores them afterwards."""

    def __init__(self, world):
        self.world = world
        self.saved = []

    def __enter__(self):
        import Crypto.Random as cr
        from Crypto.Cipher import PKCS1_v1_5 as p15
        from dissect.cobaltstrike import c2, client, utils
        w = self.world
        rng = ModuleLikeRandom(int(w.run_seed, 16) ^ 0x5EED)
        w.sim_random = rng
        for mod, name, new in ((client, "time", SimTime(w.kernel, w)), (client, "httpx", HttpxShim(w)),
                               (client, "random", rng), (c2, "random", EdgeBits(rng)), (utils, "random", rng),
                               (cr, "get_random_bytes", SeededBytes(w.run_seed))):
            self.saved.append((mod, name, getattr(mod, name)))
            setattr(mod, name, new)
        if hasattr(p15, "Random"):
            pass  # PKCS1_v1_5 looks up Random.get_random_bytes at call time (module attribute patched above)
        return self

    def __exit__(self, *exc):
        for mod, name, old in reversed(self.saved):
            setattr(mod, name, old)
        self.saved.clear()
        return False
