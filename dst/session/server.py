"""World S: the reference team server (independent peer). Event-driven, no threads, no dissect.cobaltstrike."""
from __future__ import annotations

import struct
from typing import Dict, List, Optional, Tuple

from dst import core
from dst.session import refcodec as rc


class Session:
    def __init__(self, bid: int, meta: dict):
        self.bid = bid
        self.meta = meta
        self.aes_key, self.hmac_key = rc.derive_keys(meta["aes_rand"])
        self.checkins = 0


class RefServer:
    """Implements the team-server side of the HTTP C2 protocol from the plan's configuration."""

    def __init__(self, cfg: dict, priv, run_seed: str):
        self.cfg = cfg
        self.priv = priv
        self.run_seed = run_seed
        self.sessions: Dict[int, Session] = {}
        self.queues: Dict[int, List[dict]] = {}
        self.get_uris = [u.encode() for _, u in cfg["domains"]]
        self.submit_uri = cfg["submit"].encode()
        self.verb_get = cfg["verb_get"].encode()
        self.verb_post = cfg["verb_post"].encode()
        self.received_callbacks: Dict[int, List[Tuple[int, int, bytes]]] = {}
        self.resp_n = 0
        self.log: List[tuple] = []

    def enqueue(self, bid: int, task: dict):
        self.queues.setdefault(bid, []).append(task)

    def classify(self, req) -> Optional[str]:
        if req.method == self.verb_get and any(req.path.startswith(u) for u in self.get_uris):
            return "get"
        if req.method == self.verb_post and req.path.startswith(self.submit_uri):
            return "post"
        return None

    def handle(self, wire: bytes, now_us: int, epoch: int) -> Tuple[bytes, dict]:
        """-> (response wire bytes, info). info: kind, decode error, metadata fields, task sent, callbacks received."""
        info: dict = {"kind": None, "error": None}
        try:
            req = rc.parse_wire(wire)
        except Exception as e:
            info["error"] = f"unparsable request: {e!r}"
            return self._reply(400, b"Bad-Request", b""), info
        if not isinstance(req, rc.WireRequest):
            info["error"] = "not a request"
            return self._reply(400, b"Bad-Request", b""), info
        kind = self.classify(req)
        info["kind"] = kind
        info["req"] = req
        if kind is None:
            return self._reply(404, b"Not-Found", b"nope"), info
        try:
            if kind == "get":
                vals = rc.ref_decode_request(self.cfg["get"], req.path, req.params, req.headers, req.body, self.get_uris)
                blob = vals.get("metadata", b"")
                info["blob"] = blob
                pt = rc.rsa_decrypt(blob, self.priv)
                if pt is None:
                    raise rc.RefDecodeError("metadata blob does not RSA-decrypt")
                info["plaintext"] = pt
                meta = rc.parse_metadata(pt)
                if meta["magic"] != 0xBEEF:
                    raise rc.RefDecodeError(f"metadata magic {meta['magic']:#x}")
                info["meta"] = meta
                bid = meta["bid"]
                s = self.sessions.get(bid)
                if s is None:
                    s = self.sessions[bid] = Session(bid, meta)
                s.checkins += 1
                q = self.queues.get(bid) or []
                task = q.pop(0) if q else None
                info["bid"] = bid
                info["task"] = task
                self.resp_n += 1
                if task is None:
                    if self.cfg["peer"]["idle"] == "empty":
                        return self._reply(200, b"OK", b""), info
                    body = self._encode_output(b"")
                    return self._reply(200, b"OK", body), info
                return self.task_response(s, task, epoch, info), info
            else:
                vals = rc.ref_decode_request(self.cfg["post"], req.path, req.params, req.headers, req.body, [self.submit_uri])
                sid = vals.get("id", b"")
                info["id"] = sid
                try:
                    bid = int(sid.decode("ascii"))
                except Exception:
                    raise rc.RefDecodeError(f"id {sid!r} is not a decimal beacon id")
                s = self.sessions.get(bid)
                if s is None:
                    raise rc.RefDecodeError(f"callback for unknown beacon id {bid}")
                info["bid"] = bid
                frames = rc.split_frames(vals.get("output", b""))
                info["frames"] = frames
                cbs = []
                for ct, sig in frames:
                    pt = rc.ref_decrypt(ct, sig, s.aes_key, s.hmac_key)
                    cbs.append(rc.parse_callback(pt) + (pt,))
                info["callbacks"] = cbs
                self.received_callbacks.setdefault(bid, []).extend((c[0], c[2], c[3]) for c in cbs)
                return self._reply(200, b"OK", b""), info
        except rc.RefDecodeError as e:
            info["error"] = str(e)
            return self._reply(404, b"Not-Found", b""), info

    def task_response(self, s: Session, task: dict, epoch: int, info: dict) -> bytes:
        """The wire form of a response carrying `task` for session `s`."""
        pad_n = rc.ref_pad_len(16 + len(task["data"]))
        padkind = self.cfg["peer"]["task_pad"]
        if padkind == "A":
            pad = b"A" * pad_n
        elif padkind == "zero":
            pad = bytes(pad_n)
        else:
            pad = bytes((core.draw(self.run_seed, "srv", "pad", self.resp_n, i) & 0xFF) for i in range(pad_n))
        pt = rc.pack_task(epoch, task["cmd"], task["data"], pad)
        info["task_plain"] = pt
        ct, sig = rc.ref_encrypt(pt, s.aes_key, s.hmac_key)
        info["task_ct"], info["task_sig"] = ct, sig
        body = self._encode_output(ct + sig)
        return self._reply(200, b"OK", body)

    def _encode_output(self, output: bytes) -> bytes:
        steps = self.cfg["server"]
        nmask = sum(1 for s in steps if s[0] == "mask")
        keys = [struct.pack(">I", core.draw(self.run_seed, "srv", "mask", self.resp_n, i) & 0xFFFFFFFF) for i in range(nmask)]
        return rc.ref_encode_response_body(steps, output, keys, self.cfg["peer"]["strip_b64url_pad"])

    def _reply(self, status: int, reason: bytes, body: bytes) -> bytes:
        headers = [(b"Content-Type", b"application/octet-stream"), (b"Content-Length", str(len(body)).encode())]
        return rc.serialize_response(status, reason, headers, body)
