"""World S: beacon configurations from explicit plan values (independent encoder) and their generator."""
from __future__ import annotations

import os
from typing import Dict, List

from Crypto.PublicKey import RSA

from dst.core import hx
from dst.session import refcodec as rc
from dst.storage import builder

FIX = os.path.join(os.path.dirname(os.path.dirname(os.path.dirname(os.path.abspath(__file__)))), "fixtures")
_keys: Dict[str, RSA.RsaKey] = {}


def rsa_key(name: str) -> RSA.RsaKey:
    if name not in _keys:
        with open(os.path.join(FIX, name + ".pem"), "rb") as f:
            _keys[name] = RSA.import_key(f.read())
    return _keys[name]


def _pad(b: bytes, n: int, leftover: int = 0) -> str:
    if leftover and len(b) + 2 < n:
        # a fixed-size string buffer that held a longer value before: NUL terminator, then what was left of the old content
        junk = builder.prng_bytes(leftover + len(b), n - len(b) - 1).replace(b"\x00", b"/")
        keep = 1 + (leftover + len(b)) % (n - len(b) - 1)
        return hx((b + b"\x00" + junk[:keep]).ljust(n, b"\x00"))
    return hx(b.ljust(n, b"\x00"))


def settings_for(cfg: dict) -> List[list]:
    """plan config -> explicit settings list (index, type, value) for the TLV builder."""
    pub = rsa_key(cfg["rsa"]).publickey().export_key("DER")
    domains = ",".join(f"{d},{u}" for d, u in cfg["domains"]).encode()
    get_prog = rc.compile_transform(cfg["get"])
    post_prog = rc.compile_transform(cfg["post"])
    rec_prog = rc.compile_recover(cfg["server"])
    lo = cfg.get("leftover", 0)
    s = [
        [1, "short", cfg["proto"]],
        [2, "short", cfg["port"]],
        [3, "int", cfg["sleeptime"]],
        [4, "int", cfg.get("maxget", 1048576)],
        [5, "short", cfg["jitter"]],
        [7, "ptr", _pad(pub, 256 if len(pub) <= 256 else 512)],
        [8, "ptr", _pad(domains, max(256, len(domains) + 1), lo)],
        [9, "ptr", _pad(cfg["ua"].encode(), 128 if len(cfg["ua"]) < 128 else len(cfg["ua"]) + 9, lo)],
        [10, "ptr", _pad(cfg["submit"].encode(), 64, lo)],
        [11, "ptr", _pad(rec_prog, max(256, len(rec_prog)))],
        [12, "ptr", _pad(get_prog, max(512, len(get_prog)))],
        [13, "ptr", _pad(post_prog, max(512, len(post_prog)))],
        [26, "ptr", _pad(cfg["verb_get"].encode(), 16, lo)],
        [27, "ptr", _pad(cfg["verb_post"].encode(), 16, lo)],
        [31, "short", 0],
        [37, "int", cfg.get("watermark", 305419896)],
        [54, "ptr", _pad(cfg.get("host_header", "").encode(), 128, lo)],
    ]
    # further settings the session does not depend on: unknown indices (legal; they keep a synthetic name) and a few known ones
    s += [list(x) for x in cfg.get("extra", [])]
    return s


def config_block(cfg: dict) -> bytes:
    return builder.encode_settings(settings_for(cfg), terminator=True, pad_to=4096)


# ------------------------------------------------------------------------------------------- generation

_TOK = "abcdefghijklmnopqrstuvwxyzABCDEFGHIJKLMNOPQRSTUVWXYZ0123456789"
_PRINT = _TOK + "-_.~!*'()=;:@,/ "


def _word(rng, lo=1, hi=8, alpha=_TOK):
    return "".join(rng.choice(alpha) for _ in range(rng.randint(lo, hi)))


def gen_encoders(rng, maxlen, wire_safe: bool, allow_empty_affix=True, blanks_ok=False):
    """A sequence of encoders. wire_safe: the final result must be printable ASCII (header/parameter/uri placement):
    the last non-affix encoder is base64/base64url/netbios/netbiosu and later affixes are printable."""
    n = rng.randint(0, maxlen)
    enc = []
    for _ in range(n):
        k = rng.choice(["base64", "base64url", "netbios", "netbiosu", "mask", "prepend", "append"])
        if k in ("prepend", "append"):
            r = rng.random()
            if r < 0.12 and allow_empty_affix:
                a = b""
            elif r < 0.6 or wire_safe:
                a = _word(rng, 1, 10).encode()
                if blanks_ok and rng.random() < 0.35:
                    # literals as real profiles have them: "session-token=", "; lang=en-US; ", " id-" - blanks included,
                    # also at the very edge of what ends up in a header or parameter value
                    a = rng.choice([b" ", b"; ", b"", b"="]) + a + rng.choice([b"", b"=", b"; ", b" ", b"\t"])
            else:
                a = bytes(rng.getrandbits(8) for _ in range(rng.randint(1, 12)))
            enc.append([k, hx(a)])
        else:
            enc.append([k])
    if wire_safe:
        # ensure printable output: after the last binary-producing step (mask / binary affix / raw data) put a text encoder
        last_bin = -1
        for i, e in enumerate(enc):
            if e[0] == "mask":
                last_bin = i
        text_after = any(e[0] in ("base64", "base64url", "netbios", "netbiosu") for e in enc[last_bin + 1:])
        if not text_after:
            enc.insert(last_bin + 1, [rng.choice(["base64", "base64url", "netbios", "netbiosu"])])
        # affixes before the first text encoder may be binary (they get encoded); those after must be printable: they are.
    return enc


def gen_program(rng, builds, wire_safe_only: bool, verbs_body_ok: bool, allow_uri_append: bool, static_rate=0.5,
                allow_static_param=True):
    steps = []
    used_headers = set()
    used_params = set()
    for _ in range(rng.choice([0, 0, 1, 2]) if rng.random() < static_rate else 0):
        r = rng.random()
        if r < 0.6:
            name = rng.choice(["Accept", "Accept-Language", "X-" + _word(rng, 2, 6), "Referer", "Pragma"])
            if name.lower() in used_headers:
                continue
            used_headers.add(name.lower())
            steps.append(["_header", hx(f"{name}: {_word(rng, 1, 12, _TOK + '/*;=,.')}".encode())])
        elif allow_static_param:
            name = _word(rng, 1, 5)
            if name in used_params:
                continue
            used_params.add(name)
            steps.append(["_parameter", hx(f"{name}={_word(rng, 1, 8)}".encode())])
    if rng.random() < 0.12 and "host" not in used_headers:
        # `header "Host" "..."` inside the client block is stored as its own step kind
        used_headers.add("host")
        steps.append(["_hostheader", hx(f"Host: {_word(rng, 3, 10)}.example.org".encode())])
    body_used = False
    uri_used = False
    for b in builds:
        choices = ["header", "header", "parameter", "parameter"]
        if verbs_body_ok and not body_used:
            choices += ["print", "print", "print"]
        if allow_uri_append and not uri_used:
            choices += ["uri_append"]
        t = rng.choice(choices)
        safe = t != "print"
        steps.append(["build", b])
        # (blanks at the edge of a literal only where they can travel: in a header value, not in a URI)
        steps += gen_encoders(rng, rng.choice([0, 1, 2, 3, 4, 6]), wire_safe=safe, blanks_ok=(t == "header"))
        if t == "header":
            name = rng.choice(["Cookie", "Authorization", "X-Session", "X-" + _word(rng, 2, 6)])
            while name.lower() in used_headers:
                name = "X-" + _word(rng, 3, 8)
            used_headers.add(name.lower())
            steps.append(["header", hx(name.encode())])
        elif t == "parameter":
            name = _word(rng, 1, 6)
            while name in used_params:
                name = _word(rng, 2, 8)
            used_params.add(name)
            steps.append(["parameter", hx(name.encode())])
        elif t == "print":
            body_used = True
            steps.append(["print"])
        else:
            uri_used = True
            steps.append(["uri_append"])
    return steps


def gen_server_program(rng):
    enc = gen_encoders(rng, rng.choice([0, 1, 2, 3, 4, 6]), wire_safe=False)
    return enc + [["print"]]


def gen_config(rng, allow_uri_append=False, allow_static_param=True, rsa=None):
    ndom = rng.choice([1, 1, 2, 3]) if not allow_uri_append else rng.choice([1, 2, 2, 3])
    uris = []
    while len(uris) < ndom:
        u = "/" + "/".join(_word(rng, 1, 8) for _ in range(rng.choice([1, 1, 2]))) + rng.choice(["", ".js", ".php", ".gif"])
        if uris and rng.random() < (0.6 if allow_uri_append else 0.35):
            # get URIs may be prefixes of one another (/api and /api/v2): routing is by prefix, uri-append data follows
            # the extension starts with a character no encoder alphabet or generated affix contains: otherwise uri-append
            # data following the shorter URI could itself spell the longer one (an inherently ambiguous profile)
            u = rng.choice(uris) + rng.choice([".", "~", ".", "~x."]) + _word(rng, 1, 5)
        if u not in uris:
            uris.append(u)
    rng.shuffle(uris)
    submit = "/" + _word(rng, 3, 10) + rng.choice([".php", "", "/submit"])
    while any(submit.startswith(u) or u.startswith(submit) for u in uris):
        submit = "/" + _word(rng, 4, 12)
    verb_get = rng.choice(["GET", "GET", "GET", "POST", "PUT", "FETCH"])
    verb_post = rng.choice(["POST", "POST", "POST", "GET", "PUT", "SUBMIT"])
    if verb_get != verb_post and rng.random() < 0.3:
        # routing is by verb AND prefix: with different verbs the submit URI may coincide with (or extend) a get URI
        submit = rng.choice(uris) + rng.choice(["", "", ".s"])
    body_ok_get = verb_get not in ("GET",)
    body_ok_post = verb_post not in ("GET",)
    cfg = {
        "proto": rng.choice([0, 8]),
        "port": rng.choice([80, 443, 8080, rng.randint(1, 65535)]),
        "sleeptime": rng.choice([1000, 5000, 60000, rng.randint(100, 120000)]),
        "jitter": rng.choice([0, 0, 10, 25, 50, 99, rng.randint(0, 99)]),
        "rsa": rsa or rng.choice(["rsa1024_a", "rsa1024_a", "rsa1024_b", "rsa2048_a"]),
        "domains": [[rng.choice(["c2.example.com", "cdn.example.org", "a.b.example"]), u] for u in uris],
        "ua": "Mozilla/5.0 (" + _word(rng, 3, 20, _TOK + " ;.") + ")",
        "submit": submit,
        "verb_get": verb_get,
        "verb_post": verb_post,
        "host_header": rng.choice(["", "", "Host: front.example.net"]),
        "watermark": rng.getrandbits(32),
        "get": gen_program(rng, ["metadata"], True, body_ok_get, allow_uri_append, allow_static_param=allow_static_param),
        "post": gen_program(rng, ["id", "output"], True, body_ok_post, allow_uri_append, allow_static_param=allow_static_param),
        "server": gen_server_program(rng),
        "peer": {"strip_b64url_pad": rng.random() < 0.5, "idle": rng.choice(["empty", "transformed"]),
                 "task_pad": rng.choice(["A", "zero", "random"])},
    }
    if rng.random() < 0.4:
        extra = []
        used = set()
        for _ in range(rng.randint(1, 4)):
            r = rng.random()
            if r < 0.6:
                idx = rng.choice([rng.randint(100, 400), rng.randint(401, 65535)])       # unknown setting index
                t = rng.choice(["short", "int", "ptr"])
                val = rng.getrandbits(16) if t == "short" else rng.getrandbits(32) if t == "int" else \
                    hx(bytes(rng.getrandbits(8) for _ in range(rng.choice([0, 1, 8, 32]))))
            elif r < 0.8:
                idx, t, val = rng.choice([29, 30]), "ptr", _pad(("%windir%\\syswow64\\" + _word(rng, 3, 8) + ".exe").encode(), 64)
            elif r < 0.9:
                idx, t, val = rng.choice([35, 38, 39]), "short", rng.choice([0, 1, 2])
            else:
                idx, t, val = 36, "short", rng.getrandbits(16)        # old beacons: index 36 is INJECT_OPTIONS (short), not the watermark hash
            if idx not in used:
                used.add(idx)
                extra.append([idx, t, val])
        cfg["extra"] = extra
    if rng.random() < 0.25:
        cfg["leftover"] = rng.randint(1, 1 << 20)      # string buffers carry old bytes behind their NUL terminator
    return cfg
