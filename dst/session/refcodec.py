"""World S: the independent reference codec of the team-server peer.

Nothing here imports dissect.cobaltstrike. It contains
  * a minimal HTTP/1.1 wire serialiser/parser (binary safe, header case preserved),
  * a Malleable-C2 data-transform interpreter that works from the *plan's* step lists,
  * struct-based packing/parsing of BeaconMetadata / TaskPacket / CallbackPacket,
  * packet crypto through PyCryptodome AES / PKCS1_v1_5 and stdlib hmac/hashlib called directly,
  * the compiler from step lists to Cobalt Strike's binary program encodings (used to *build* configurations).
"""
from __future__ import annotations

import base64
import hashlib
import hmac as _hmac
import struct
from typing import Dict, List, Optional, Sequence, Tuple

from Crypto.Cipher import AES, PKCS1_v1_5

OPC = {"append": 1, "prepend": 2, "base64": 3, "print": 4, "parameter": 5, "header": 6, "build": 7, "netbios": 8,
       "_parameter": 9, "_header": 10, "netbiosu": 11, "uri_append": 12, "base64url": 13, "mask": 15, "_hostheader": 16}
ENCODERS = ("base64", "base64url", "netbios", "netbiosu", "mask", "prepend", "append")
TERMINATIONS = ("header", "parameter", "print", "uri_append")
STATIC = ("_header", "_parameter", "_hostheader")


class RefDecodeError(Exception):
    """The reference decoder could not decode a message (placement missing, affix mismatch, bad alphabet...)."""


def arg(step) -> bytes:
    return bytes.fromhex(step[1]) if len(step) > 1 and isinstance(step[1], str) and step[0] != "build" else b""


# ------------------------------------------------------------------------------------------- program compiler

def compile_transform(steps: Sequence[Sequence]) -> bytes:
    """http-get / http-post client program -> binary (u32be opcodes, args length-prefixed, 0 terminator)."""
    out = bytearray()
    for st in steps:
        name = st[0]
        out += struct.pack(">I", OPC[name])
        if name == "build":
            out += struct.pack(">I", 1 if st[1] == "output" else 0)
        elif name in ("append", "prepend", "header", "parameter", "_header", "_parameter", "_hostheader"):
            a = arg(st)
            out += struct.pack(">I", len(a)) + a
    out += struct.pack(">I", 0)
    return bytes(out)


def compile_recover(server_steps: Sequence[Sequence]) -> bytes:
    """http-get server output (in transform order) -> binary *recover* program (reverse order, lengths only)."""
    out = bytearray()
    for st in reversed(list(server_steps)):
        name = st[0]
        out += struct.pack(">I", OPC[name])
        if name in ("append", "prepend"):
            out += struct.pack(">I", len(arg(st)))
    out += struct.pack(">I", 0)
    return bytes(out)


# ------------------------------------------------------------------------------------------- HTTP wire

_UNRESERVED = b"ABCDEFGHIJKLMNOPQRSTUVWXYZabcdefghijklmnopqrstuvwxyz0123456789-._~"


def pct_encode(b: bytes, plus_for_space: bool = False, raw: bytes = b"", lower: int = 0) -> bytes:
    """Percent-encode everything but the unreserved characters (and the bytes in `raw`, which the sender chooses to
    leave as they are: RFC 3986 allows ? / : @ ! $ ' ( ) * , ; and, in values, = inside a query component)."""
    out = bytearray()
    for c in b:
        if c in _UNRESERVED or c in raw:
            out.append(c)
        elif c == 0x20 and plus_for_space:
            out += b"+"
        else:
            # hex digits of an escape are case-insensitive: lower=1 all lower case, lower=2 alternating
            out += (b"%%%02x" % c) if lower == 1 or (lower == 2 and len(out) % 2) else (b"%%%02X" % c)
    return bytes(out)


def pct_decode(b: bytes, plus_is_space: bool = True) -> bytes:
    out = bytearray()
    i = 0
    n = len(b)
    while i < n:
        c = b[i]
        if c == 0x25 and i + 3 <= n and all(x in b"0123456789abcdefABCDEF" for x in b[i + 1:i + 3]):
            out.append(int(b[i + 1:i + 3], 16))
            i += 3
            continue
        if c == 0x2B and plus_is_space:
            out.append(0x20)
        else:
            out.append(c)
        i += 1
    return bytes(out)


def serialize_request(method: bytes, path: bytes, params: Sequence[Tuple[bytes, bytes]],
                      headers: Sequence[Tuple[bytes, bytes]], body: bytes, plus_for_space: bool = False,
                      raw_safe: bytes = b"", lower_hex: int = 0) -> bytes:
    target = path
    if params:
        kraw = bytes(c for c in raw_safe if c != 0x3D)
        target += b"?" + b"&".join(pct_encode(k, plus_for_space, kraw, lower_hex) + b"=" + pct_encode(v, plus_for_space, raw_safe, lower_hex)
                                   for k, v in params)
    return serialize_raw_request(method, target, headers, body)


def serialize_raw_request(method: bytes, target: bytes, headers: Sequence[Tuple[bytes, bytes]], body: bytes) -> bytes:
    out = method + b" " + target + b" HTTP/1.1\r\n"
    for k, v in headers:
        out += k + b": " + v + b"\r\n"
    return out + b"\r\n" + body


def serialize_response(status: int, reason: bytes, headers: Sequence[Tuple[bytes, bytes]], body: bytes) -> bytes:
    out = b"HTTP/1.1 " + str(status).encode() + b" " + reason + b"\r\n"
    for k, v in headers:
        out += k + b": " + v + b"\r\n"
    return out + b"\r\n" + body


class WireRequest:
    __slots__ = ("method", "target", "path", "params", "headers", "body")


class WireResponse:
    __slots__ = ("status", "reason", "headers", "body")


def parse_wire(data: bytes):
    """The peer's own parser. Headers are a list of (name, value) with case preserved; lookups are
    case-insensitive on the peer's side (tolerant)."""
    head, sep, body = data.partition(b"\r\n\r\n")
    lines = head.split(b"\r\n")
    start = lines[0]
    headers = []
    for ln in lines[1:]:
        k, _, v = ln.partition(b":")
        headers.append((k, v[1:] if v.startswith(b" ") else v))
    parts = start.split(b" ")
    if start.startswith(b"HTTP/"):
        r = WireResponse()
        r.status = int(parts[1])
        r.reason = b" ".join(parts[2:])
        r.headers, r.body = headers, body
        return r
    if len(parts) != 3:
        raise RefDecodeError(f"bad request line {start!r}")
    q = WireRequest()
    q.method, q.target = parts[0], parts[1]
    path, _, query = q.target.partition(b"?")
    q.path = path
    q.params = []
    if query:
        for kv in query.split(b"&"):
            k, _, v = kv.partition(b"=")
            q.params.append((pct_decode(k), pct_decode(v)))
    q.headers, q.body = headers, body
    return q


def header_get(headers, name: bytes) -> Optional[bytes]:
    for k, v in headers:
        if k == name:           # exact spelling first: a message may carry case twins (tuple-level exchanges)
            return v
    for k, v in headers:
        if k.lower() == name.lower():
            return v
    return None


# ------------------------------------------------------------------------------------------- byte encoders

def nb_encode(data: bytes, base: int) -> bytes:
    out = bytearray()
    for c in data:
        out.append(base + (c >> 4))
        out.append(base + (c & 15))
    return bytes(out)


def nb_decode(data: bytes, base: int) -> bytes:
    if len(data) % 2:
        raise RefDecodeError("odd netbios length")
    out = bytearray()
    for i in range(0, len(data), 2):
        a, b = data[i] - base, data[i + 1] - base
        if not (0 <= a < 16 and 0 <= b < 16):
            raise RefDecodeError(f"byte outside the netbios alphabet (base {base:#x}) at {i}")
        out.append(a << 4 | b)
    return bytes(out)


_B64 = b"ABCDEFGHIJKLMNOPQRSTUVWXYZabcdefghijklmnopqrstuvwxyz0123456789+/"
_B64U = b"ABCDEFGHIJKLMNOPQRSTUVWXYZabcdefghijklmnopqrstuvwxyz0123456789-_"


def b64_decode_strict(data: bytes, url: bool) -> bytes:
    alpha = _B64U if url else _B64
    core = data.rstrip(b"=")
    if any(c not in alpha for c in core):
        raise RefDecodeError("byte outside the %s alphabet" % ("base64url" if url else "base64"))
    if len(core) % 4 == 1:
        raise RefDecodeError("impossible base64 length")
    pad = b"=" * (-len(core) % 4)
    return base64.b64decode(core + pad, altchars=b"-_" if url else None)


def mask_apply(data: bytes, key4: bytes) -> bytes:
    return key4 + bytes(d ^ key4[i & 3] for i, d in enumerate(data))


def mask_remove(data: bytes) -> bytes:
    if len(data) < 4:
        raise RefDecodeError("masked data shorter than its 4-byte key")
    k = data[:4]
    return bytes(d ^ k[i & 3] for i, d in enumerate(data[4:]))


# ------------------------------------------------------------------------------------------- program interpreter

def split_blocks(steps: Sequence[Sequence]):
    """-> (static steps, [(build name, [encoder steps], termination step)])"""
    static, blocks, cur = [], [], None
    for st in steps:
        n = st[0]
        if n in STATIC:
            static.append(st)
        elif n == "build":
            cur = [st[1], [], None]
            blocks.append(cur)
        elif n in TERMINATIONS:
            if cur is None:
                raise RefDecodeError("termination outside a build block")
            cur[2] = st
            cur = None
        else:
            if cur is None:
                raise RefDecodeError(f"encoder {n} outside a build block")
            cur[1].append(st)
    return static, blocks


def ref_encode_data(data: bytes, encoders: Sequence[Sequence], mask_keys: Sequence[bytes], strip_b64url_pad: bool) -> bytes:
    mk = list(mask_keys)
    for st in encoders:
        n = st[0]
        if n == "base64":
            data = base64.b64encode(data)
        elif n == "base64url":
            data = base64.urlsafe_b64encode(data)
            if strip_b64url_pad:
                data = data.rstrip(b"=")
        elif n == "netbios":
            data = nb_encode(data, 0x61)
        elif n == "netbiosu":
            data = nb_encode(data, 0x41)
        elif n == "mask":
            data = mask_apply(data, mk.pop(0))
        elif n == "prepend":
            data = arg(st) + data
        elif n == "append":
            data = data + arg(st)
        else:
            raise RefDecodeError(f"not an encoder: {n}")
    return data


def ref_decode_data(data: bytes, encoders: Sequence[Sequence]) -> bytes:
    for st in reversed(list(encoders)):
        n = st[0]
        if n == "base64":
            data = b64_decode_strict(data, url=False)
        elif n == "base64url":
            data = b64_decode_strict(data, url=True)
        elif n == "netbios":
            data = nb_decode(data, 0x61)
        elif n == "netbiosu":
            data = nb_decode(data, 0x41)
        elif n == "mask":
            data = mask_remove(data)
        elif n == "prepend":
            a = arg(st)
            if not data.startswith(a):
                raise RefDecodeError(f"prepend string {a!r} missing (data starts {data[:len(a) + 4]!r})")
            data = data[len(a):]
        elif n == "append":
            a = arg(st)
            if not data.endswith(a):
                raise RefDecodeError(f"append string {a!r} missing (data ends {data[-len(a) - 4:]!r})")
            data = data[:len(data) - len(a)]
    return data


def ref_decode_request(steps, path: bytes, params, headers, body: bytes, base_uris: Sequence[bytes],
                       uri_pct: bool = True) -> Dict[str, bytes]:
    """Decode a client request (parts as the peer parsed them) -> {build name: data}. Also checks the static
    decorations the program prescribes."""
    static, blocks = split_blocks(steps)
    out = {}
    for st in static:
        a = arg(st)
        if st[0] in ("_header", "_hostheader"):
            k, _, v = a.partition(b": ")
            got = header_get(headers, k)
            if got != v:
                raise RefDecodeError(f"static header {k!r} is {got!r}, program says {v!r}")
        else:
            k, _, v = a.partition(b"=")
            got = [pv for pk, pv in params if pk == k]
            if got != [v]:
                raise RefDecodeError(f"static parameter {k!r} is {got!r}, program says {v!r}")
    for name, encoders, term in blocks:
        if term is None:
            raise RefDecodeError("build block without termination")
        t = term[0]
        if t == "print":
            raw = body
        elif t == "header":
            raw = header_get(headers, arg(term))
            if raw is None:
                raise RefDecodeError(f"header {arg(term)!r} not present")
        elif t == "parameter":
            vals = [pv for pk, pv in params if pk == arg(term)]
            if len(vals) != 1:
                raise RefDecodeError(f"parameter {arg(term)!r} present {len(vals)} times")
            raw = vals[0]
        else:  # uri_append
            base = next((u for u in sorted(base_uris, key=len, reverse=True) if path.startswith(u)), None)
            if base is None:
                raise RefDecodeError(f"path {path!r} does not start with a configured URI")
            raw = pct_decode(path[len(base):], plus_is_space=False) if uri_pct else path[len(base):]
        out[name] = ref_decode_data(raw, encoders)
    return out


def ref_encode_request(steps, values: Dict[str, bytes], method: bytes, uri: bytes, base_headers, mask_keys,
                       strip_b64url_pad: bool):
    """Reference *encoder* for client messages -> (method, path, params list, headers list, body)."""
    static, blocks = split_blocks(steps)
    headers = list(base_headers)
    params: List[Tuple[bytes, bytes]] = []
    body = b""
    mk = list(mask_keys)
    for st in static:
        a = arg(st)
        if st[0] in ("_header", "_hostheader"):
            k, _, v = a.partition(b": ")
            headers = [(hk, hv) for hk, hv in headers if hk.lower() != k.lower()] + [(k, v)]
        else:
            k, _, v = a.partition(b"=")
            params.append((k, v))
    for name, encoders, term in blocks:
        nmask = sum(1 for e in encoders if e[0] == "mask")
        data = ref_encode_data(values.get(name, b""), encoders, mk[:nmask], strip_b64url_pad)
        mk = mk[nmask:]
        t = term[0]
        if t == "print":
            body = data
        elif t == "header":
            headers = [(hk, hv) for hk, hv in headers if hk.lower() != arg(term).lower()] + [(arg(term), data)]
        elif t == "parameter":
            params.append((arg(term), data))
        else:
            uri = uri + data
    return method, uri, params, headers, body


def ref_encode_response_body(server_steps, output: bytes, mask_keys, strip_b64url_pad: bool) -> bytes:
    enc = [s for s in server_steps if s[0] != "print"]
    return ref_encode_data(output, enc, mask_keys, strip_b64url_pad)


def ref_decode_response_body(server_steps, body: bytes) -> bytes:
    enc = [s for s in server_steps if s[0] != "print"]
    return ref_decode_data(body, enc)


# ------------------------------------------------------------------------------------------- packets

META_FMT = ">II16sHHIIHBBBHIIII"  # magic size aes_rand ansi oem bid pid port flag vmaj vmin vbuild x64 gmh gpa ip
META_FIXED = struct.calcsize(META_FMT)  # 59
META_FIELDS = ("magic", "size", "aes_rand", "ansi_cp", "oem_cp", "bid", "pid", "port", "flag", "ver_major", "ver_minor",
               "ver_build", "ptr_x64", "ptr_gmh", "ptr_gpa", "ip")


def pack_metadata(f: dict) -> bytes:
    info = f.get("info", b"")
    size = f.get("size", META_FIXED - 8 + len(info))
    return struct.pack(META_FMT, f.get("magic", 0xBEEF), size, f["aes_rand"], f["ansi_cp"], f["oem_cp"], f["bid"], f["pid"],
                       f["port"], f["flag"], f["ver_major"], f["ver_minor"], f["ver_build"], f["ptr_x64"], f["ptr_gmh"],
                       f["ptr_gpa"], f["ip"]) + info


def parse_metadata(pt: bytes) -> dict:
    if len(pt) < META_FIXED:
        raise RefDecodeError(f"metadata plaintext of {len(pt)} bytes is shorter than the fixed part")
    vals = struct.unpack(META_FMT, pt[:META_FIXED])
    d = dict(zip(META_FIELDS, vals))
    d["info"] = pt[META_FIXED:META_FIXED + max(0, d["size"] - 51)]
    return d


def rsa_decrypt(blob: bytes, priv) -> Optional[bytes]:
    sentinel = object()
    try:
        pt = PKCS1_v1_5.new(priv).decrypt(blob, sentinel)
    except ValueError:
        return None
    return None if pt is sentinel else pt


def derive_keys(aes_rand: bytes) -> Tuple[bytes, bytes]:
    d = hashlib.sha256(aes_rand).digest()
    return d[:16], d[16:]


def ref_pad_len(n: int) -> int:
    return 16 - n % 16


def ref_encrypt(pt_padded: bytes, aes_key: bytes, hmac_key: bytes, iv: bytes = b"abcdefghijklmnop") -> Tuple[bytes, bytes]:
    ct = AES.new(aes_key, AES.MODE_CBC, iv).encrypt(pt_padded)
    sig = _hmac.new(hmac_key, ct, hashlib.sha256).digest()[:16]
    return ct, sig


def ref_decrypt(ct: bytes, sig: bytes, aes_key: bytes, hmac_key: bytes, iv: bytes = b"abcdefghijklmnop") -> bytes:
    want = _hmac.new(hmac_key, ct, hashlib.sha256).digest()[:16]
    if not _hmac.compare_digest(want, sig):
        raise RefDecodeError("HMAC mismatch")
    if len(ct) % 16 or not ct:
        raise RefDecodeError("ciphertext length is not a positive multiple of 16")
    return AES.new(aes_key, AES.MODE_CBC, iv).decrypt(ct)


def pack_task(epoch: int, command: int, data: bytes, pad: bytes) -> bytes:
    body = struct.pack(">II", command, len(data)) + data
    return struct.pack(">II", epoch, len(body)) + body + pad


def parse_task(pt: bytes) -> Tuple[int, int, int, bytes]:
    epoch, total, command, size = struct.unpack(">IIII", pt[:16])
    return epoch, total, command, pt[16:16 + size]


def parse_callback(pt: bytes) -> Tuple[int, int, int, bytes]:
    counter, size, cb = struct.unpack(">III", pt[:12])
    return counter, size, cb, pt[12:12 + size]


def split_frames(output: bytes) -> List[Tuple[bytes, bytes]]:
    frames = []
    p = 0
    while p < len(output):
        if p + 4 > len(output):
            raise RefDecodeError("truncated frame length")
        (n,) = struct.unpack_from(">I", output, p)
        if n < 16 or p + 4 + n > len(output):
            raise RefDecodeError(f"frame of {n} bytes does not fit")
        payload = output[p + 4:p + 4 + n]
        frames.append((payload[:-16], payload[-16:]))
        p += 4 + n
    return frames
