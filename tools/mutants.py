#!/usr/bin/env python3
"""Sensitivity self-test: apply each realistic breaking change to a scratch worktree of /repo (never to /repo itself),
optionally run the pinned test suite there, run the targeted property's quick check against the scratch tree
(VERIF_REPO) and record whether it reports a violation. Scratch trees live under /tmp and are removed afterwards.

  tools/mutants.py [--only ID[,ID|PREFIX-]] [--tests] [--tier quick] [--runs N] [--jobs J --workers W] [--sweep]

Sources of mutants:
  * reverted fix commits (known_findings.json "fixed" entries)            -> id revert-<sha>
  * /verif/seeded/<id>/patch.diff (independently written breaking changes) -> id <dir name>
Results: /verif/selftest/mutants.json
"""
import argparse
import json
import os
import shutil
import subprocess
import sys
import time

VERIF = os.path.dirname(os.path.dirname(os.path.abspath(__file__)))
PY = "/venv/bin/python"


def sh(cmd, **kw):
    return subprocess.run(cmd, shell=True, capture_output=True, text=True, **kw)


def mutants():
    out = []
    kf = json.load(open(os.path.join(VERIF, "known_findings.json")))
    for f in kf.get("fixed", []):
        out.append({"id": "revert-" + f["commit"], "kind": "revert", "commit": f["commit"], "properties": [f["property"]],
                    "what": f["what"][:160]})
    sd = os.path.join(VERIF, "seeded")
    if os.path.isdir(sd):
        for name in sorted(os.listdir(sd)):
            meta = os.path.join(sd, name, "meta.json")
            if os.path.exists(meta):
                m = json.load(open(meta))
                out.append({"id": name, "kind": "patch", "file": os.path.join(sd, name, "patch.diff"),
                            "properties": m.get("checks", [m["property"]]), "what": m.get("needs", "")[:160]})
    return out


def main():
    ap = argparse.ArgumentParser()
    ap.add_argument("--only")
    ap.add_argument("--tests", action="store_true")
    ap.add_argument("--tier", default="quick")
    ap.add_argument("--runs", type=int)
    ap.add_argument("--kind", choices=["revert", "patch"])
    ap.add_argument("--out", help="results file (default selftest/mutants.json); use another one for runs under other VERIF_SEED values")
    ap.add_argument("--jobs", type=int, default=1, help="mutants processed in parallel")
    ap.add_argument("--workers", type=int, default=16, help="worker processes per check run")
    ap.add_argument("--sweep", action="store_true", help="stop each check at the first confirmed violation (no minimisation)")
    a = ap.parse_args()
    results = {}
    resfile = a.out or os.path.join(VERIF, "selftest", "mutants.json")
    if os.path.exists(resfile):
        results = json.load(open(resfile))
    only = set(a.only.split(",")) if a.only else None
    todo = [m for m in mutants() if (not only or m["id"] in only or any(m["id"].startswith(o) for o in only if o.endswith("-")))
            and (not a.kind or m["kind"] == a.kind)]

    def one(m):
        wt = f"/tmp/dst-mut-{m['id']}"
        sh(f"git -C /repo worktree remove --force {wt}")
        shutil.rmtree(wt, ignore_errors=True)
        r = sh(f"git -C /repo worktree add --detach {wt} HEAD")
        if r.returncode:
            return m, {"applied": False, "error": "worktree failed " + r.stderr[:200]}
        try:
            if m["kind"] == "revert":
                r = sh(f"git -C {wt} revert --no-commit {m['commit']}")
            else:
                r = sh(f"git -C {wt} apply {m['file']}")
            if r.returncode:
                return m, {"applied": False, "error": r.stderr[:300]}
            entry = {"applied": True, "what": m["what"], "checks": {}}
            if a.tests:
                t = sh(f"cd {wt} && PYTHONPATH={wt} {PY} -m pytest -q -p no:cacheprovider -n 8 tests 2>&1 | tail -3")
                entry["tests_tail"] = t.stdout[-400:]
            for pid in m["properties"]:
                t0 = time.time()
                # replays/evidence of runs against scratch trees go to the scratch tree, never to /verif
                cmd = (f"VERIF_REPO={wt} VERIF_OUT={wt}/.verif-out VERIF_WORKERS={a.workers} VERIF_WALL_CAP=2000 timeout 2400 {PY} {VERIF}/dst/run.py {pid} "
                       f"--tier {a.tier} --no-determinism" + (" --sweep" if a.sweep else ""))
                if a.runs:
                    cmd += f" --runs {a.runs}"
                c = sh(cmd)
                viol = [ln for ln in c.stdout.splitlines() if ln.startswith("VIOLATION")]
                sigs = [ln.strip() for ln in c.stdout.splitlines() if ln.strip().startswith("signature=")]
                entry["checks"][pid] = {"exit": c.returncode, "violations": len(viol), "signatures": [s[:200] for s in sigs[:4]],
                                        "wall_s": round(time.time() - t0, 1)}
                if c.returncode not in (0, 1):
                    entry["checks"][pid]["tail"] = c.stdout[-600:]
                print(f"{m['id']:28s} {pid}: exit={c.returncode} violations={len(viol)} {sigs[0][:150] if sigs else ''}", flush=True)
            return m, entry
        finally:
            sh(f"git -C /repo worktree remove --force {wt}")
            shutil.rmtree(wt, ignore_errors=True)

    from concurrent.futures import ThreadPoolExecutor
    with ThreadPoolExecutor(max_workers=a.jobs) as ex:
        for m, entry in ex.map(one, todo):
            results[m["id"]] = entry
    os.makedirs(os.path.dirname(resfile), exist_ok=True)
    json.dump(results, open(resfile, "w"), indent=1, sort_keys=True)
    caught = sum(1 for v in results.values() if v.get("applied") and any(c["exit"] == 1 for c in v["checks"].values()))
    print(f"mutants caught: {caught}/{sum(1 for v in results.values() if v.get('applied'))}")


if __name__ == "__main__":
    sys.exit(main())
