#!/bin/bash
# tools/soak.sh "<seeds>" [tier] : run every registered check for each VERIF_SEED, print one line per run.
# Evidence files are rewritten by every run; re-run the plain quick checks (seed 0) before committing evidence.
cd "$(dirname "$0")/.."
tier=${2:-quick}
for seed in $1; do
  for p in C01 C04 C05 C06 C07 C08 C09 C11 C14 C15 C16 C17 C19; do
    out=$(VERIF_SEED=$seed timeout 3600 /venv/bin/python dst/run.py $p --tier $tier 2>&1)
    code=$?
    echo "seed=$seed $p exit=$code $(echo "$out" | grep '^DONE' | cut -c1-200)"
    if [ $code -ne 0 ]; then echo "$out" | grep -v '^DONE\|^SEED' | cut -c1-400 | head -12; fi
  done
done
