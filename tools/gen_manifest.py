#!/usr/bin/env python3
"""Regenerates /verif/MANIFEST.json from the table below (run by hand after adding a check)."""
import json
import os

VERIF = os.path.dirname(os.path.dirname(os.path.abspath(__file__)))
PY = "/venv/bin/python"

BASELINE = ("cd /repo && /venv/bin/python -m pytest -ra -q -p no:cacheprovider --timeout=900 "
            "--continue-on-collection-errors")

# id -> (level, design_ref, technique, level text, level note)
CHECKS = {
    "C15": ("exploration", "DESIGN.md §7 C15",
            "deterministic simulation: simulated reader + chunk-size seam, seeded plans + small systematic grid, naive-scanner oracle",
            "Seeded search over haystack/needle/chunk-size/start/limit plans (small alphabets up to 80 bytes, and 8-40 KiB haystacks "
            "with needles around the multiples of 8192 and of the chunk size) executed through a simulated file whose "
            "chunking the simulator controls, compared with a naive scanner; a systematic grid of all binary haystacks "
            "rides along. Exploration: a clean batch is evidence, not proof.",
            "Trusts CPython bytes.find/slicing in the reference scanner; readers are full-read seekable files."),
}

CHECKS["C09"] = ("exploration", "DESIGN.md §7 C09",
    "deterministic simulation: seek/read/tell histories on a simulated device vs byte-slice model; detection variants; seeded + systematic op pairs",
    "Seeded histories (1-24 ops) and all ordered pairs of 23 op classes on one long-lived XorEncodedFile over a simulated "
    "file (constructed with explicit or default offset, first operation with or without a seek, read() with and without "
    "argument, arbitrary size fields), compared step by step with a byte-slice model; detection (from_file) is exercised over "
    "stub/marker/size variants up to the documented search-range limits, built by an independent encoder; negatives must raise ValueError.",
    "Trusts the independent rolling-XOR encoder (anchored: it reproduces the repository's XorEncoded samples) and BytesIO semantics.")

CHECKS["C01"] = ("exploration", "DESIGN.md §7 C01",
    "deterministic simulation: stored payloads read through a simulated device with chunk-size seam; seeded layouts/keys/offsets; reference-scanner oracle",
    "Seeded search over container layouts (raw, PE .data, XorEncoded PE), XOR keys, key lists/all-keys mode, embedding "
    "offsets biased to chunk boundaries/offset 0/EOF, filler kinds, decoy blocks (also blocks visible in the raw view of a "
    "XorEncoded stage only), entry points and chunk sizes; the "
    "real extractors read the stored image through the simulator's file and the result is compared with an "
    "executable reference scanner and TLV decoder over the same image.",
    "Trusts the independent builder/scanner (anchored to the repository's real samples in selftest anchors); all-keys runs with several candidate leftover keys are discarded as ambiguous.")

CHECKS["C08"] = ("fault_enumeration", "DESIGN.md §7 C08",
    "deterministic simulation with storage fault injection: systematic truncation/crafted-field/bit-flip grid + seeded multi-fault plans through all entry points; reader-call budget + stall detector as the termination clock",
    "Every mapped truncation, crafted structure-field value and header bit flip (thorough: all bits; quick: a fixed subsample) "
    "of 9 builder base images, plus seeded multi-fault combinations, splices, garbage and the 7 real samples, are pushed "
    "through all 14 untrusted-bytes entry-point variants on a simulated device; outcome must be a documented value or ValueError "
    "within the reader-call budget. Fault enumeration per base image; the set of base images is sampled.",
    "Termination is judged by reader-call budget, stall detector (reads at EOF) and cycle detector (same few seek/read operations repeated), also for from_path (open() is rebound to a counting wrapper); a loop doing no I/O would only hit the wall backstop; ValueError is accepted from every entry point.")

CHECKS["C17"] = ("exploration", "DESIGN.md §7 C17",
    "deterministic simulation with storage fault injection: Guardrails payloads from an independent masker on a simulated device; seeded keys/options/positions; bit-rot faults; checksum safety invariant",
    "Seeded search over environmental keys of every length 2-256, guard-option subsets, positions and raw/XorEncoded "
    "containers (positions at block boundaries of the stored file and of the decoded stream); fault-free runs must recover "
    "configuration, the key itself (its shortest tile, not a repetition), guard settings, checksum and offsets, also as the third step of "
    "a history with keys of related lengths; runs "
    "with injected bit flips (settings, key-bearing padding, checksum, marker, guard settings) or a wrong stored checksum are "
    "judged only by the safety invariant 'configuration reported => checksum matches the stored one'; 55% of the fault runs "
    "are two-step histories in one process (genuine image then its corrupted copy, or the reverse) whose second verdict must "
    "be what it would be alone.",
    "Trusts the independent masker/checksum (anchored to the real Guardrails sample); configurations are zero-padded; default chunk size.")

CHECKS["C07"] = ("exploration", "DESIGN.md §4, §7 C07",
    "deterministic simulation with fault injection: real HttpBeaconClient threads (baton-passed) + reference team server + faulty simulated network + virtual clock + seeded PRNGs; wire tap decoded by C2Http under 4 key variants",
    "Seeded search over beacon configurations, client populations, operator task lists, handler behaviours and fault lists "
    "(message loss, duplication, delay, corruption, HTTP errors, crash/restart, clock jumps, noise). Every message on the "
    "simulated wire is decoded by the passive decoder under RSA-only / aes_rand / AES+HMAC / AES-no-verify key material - plus "
    "a keyed observer that sees task responses late and one whose capture starts in mid-session - and "
    "compared with ground truth recorded at the source; unsolicited task responses and raw multi-callback POSTs carry command / "
    "callback ids outside the library's tables; restarts may run the same client object again; routing and rejection of "
    "unrelated requests are checked; bounded liveness after the last fault; a decoder that has decoded a task response must reject "
    "its twin with one ciphertext bit flipped; 8% of the runs run ONE client object for configuration A and then for B (transport down) "
    "and judge what it hands to the transport by B.",
    "Trusts the independent reference server/codec (anchored to captured Cobalt Strike traffic), PyCryptodome, httpx request building; pcap.py itself is not executed (no tshark), its per-packet driver logic is mirrored.")
CHECKS["C19"] = ("exploration", "DESIGN.md §4, §7 C19",
    "deterministic simulation with fault injection: long-lived real client sessions with crash/restart, sleep seam observation, reference handler registry, bounded liveness",
    "Same simulator as C07 biased to long sessions: identity (even id in range, stable across check-ins and restarts, same "
    "keys for the same id), jitter band observed at the time.sleep seam, metadata fits the RSA key, exactly-once dispatch "
    "per received task against a reference registry over all registration mechanisms, queues drain within a bound after "
    "the last fault.",
    "Trusts the reference registry model (a dict) and the reference server; handlers are workload code.")

CHECKS["C04"] = ("exploration", "DESIGN.md §7 C04",
    "deterministic simulation: library transform/recover <-> independent reference codec in both directions with the mask PRNG behind the seam; plus full sessions on the simulated wire",
    "Seeded search over data-transform programs (all encoders, orderings, repetitions, empty/binary affixes, all termination "
    "kinds, 1-3 build blocks, static decorations), payloads and initial requests: library-encoded messages must decode with "
    "the reference interpreter, reference-encoded messages (both base64url padding conventions) must recover with the "
    "library, and the library must invert itself; 15% of runs are full client/server sessions.",
    "Trusts the reference codec; the known finding F-C04-1 (uri-append with a non-empty initial URI at the transform level) is reported as KNOWN-FINDING.")
CHECKS["C05"] = ("fault_enumeration", "DESIGN.md §7 C05",
    "fault enumeration on simulated packets: every single-bit flip and every truncation of ciphertext and signature, wrong/missing HMAC keys, against a reference cipher; framing split; plus sessions with in-flight corruption",
    "Per packet (plaintexts up to 80 bytes) the whole single-bit and truncation fault space of ciphertext||signature is enumerated "
    "(one large packet at a boundary length up to 256 KiB per 30% of the plans gets a sampled fault set) and must be rejected "
    "with ValueError; ciphertext and signature are compared with AES-128-CBC / HMAC-SHA256 computed independently; streams "
    "of 1-5 framed packets and trailing-signature task data must split back exactly; sessions add corruption in flight.",
    "The packet population (plaintexts, keys, IVs) is sampled; trusts PyCryptodome AES and stdlib hmac.")
CHECKS["C06"] = ("exploration", "DESIGN.md §7 C06",
    "deterministic simulation: check-ins between the library and an independent PKCS#1/struct peer with seeded padding; rogue sender; plus sessions",
    "Seeded search over metadata fields at full width, info lengths up to and beyond the PKCS#1 limit, RSA-1024/2048 "
    "fixtures; library-encrypted blobs are decrypted and parsed by the reference peer and vice versa; blobs under another "
    "key, random blobs, bit-flipped blobs, RSA-valid plaintexts without the magic and structures with a lying size field must raise "
    "ValueError - also every time one RSA-only traffic decoder is shown them again; key derivation is compared with SHA-256 halves, "
    "for the library's own client too (ids whose random bytes start with a zero byte).",
    "Trusts PyCryptodome PKCS1_v1_5/RSA and the struct-based reference parser.")
CHECKS["C16"] = ("exploration", "DESIGN.md §7 C16",
    "deterministic simulation: messages shaped by the independent serialiser of the noise actor and every message of full sessions must parse back to exactly their parts; constructed malformed start lines",
    "Seeded search over methods, paths, parameter maps with arbitrary bytes, header maps, binary bodies, status lines and "
    "constructed malformed start lines, serialised by an independent serialiser; plus every message that the real httpx-built "
    "client and the reference server put on the simulated wire.",
    "Input dimension is sampled, not scheduled; what the simulator adds is the population (real httpx requests, peer replies, noise) and the independent second party.")

CHECKS["C11"] = ("exploration", "DESIGN.md §6, §7 C11",
    "history simulation of one long-lived object: seeded interleavings of builder modifications and dictionary/text reads vs a path->values model; builder==parser; two builder call styles",
    "Seeded histories of profile modifications (global options, all block kinds with options, pairs, data-transform, execute "
    "and BeaconGate lists) interleaved with as_dict/properties/as_text/str/reparse reads on one C2Profile; after every read "
    "the dictionary equals a model computed from the plan, from_text(as_text()) has an equal tree, text and dictionary, and "
    "kwargs-style and call-style construction give equal trees (values handed over as str or bytes); a parsed-from-text "
    "population covers variants and escape sequences at the edges of literals.",
    "No clock/network/storage is involved (weakest fit to the technique: the nondeterminism is the caller's operation order); string escaping (C12) is kept out of the domain.")
CHECKS["C14"] = ("exploration", "DESIGN.md §6, §7 C14",
    "history simulation of one shared object: all ordered pairs of 24 use kinds plus seeded histories vs a never-used twin and a fresh twin per operation; also an invariant in every World S session",
    "All ordered pairs (thorough: triples) of the 24 kinds of use of one BeaconConfig and seeded histories up to 24 operations "
    "on generated HTTP configurations (with unknown setting indices), SMB/TCP pivot configurations and the real samples (extracted "
    "from the stored payload or built from the bare block, with a companion object over the same bytes): after every operation "
    "a deep snapshot equals a never-used twin's, every observable part equals what a brand-new object reports when asked first "
    "(for the samples: what a brand-new PROCESS reports), the operation's result equals the same operation on a brand-new "
    "configuration, and no mutation path of the settings mappings has an effect.",
    "Results are compared after canonicalisation; PRNG seams reseeded identically for both executions.")

NOT_APPLICABLE = {
    "C02": "Pure function config-block bytes -> settings/views; no schedule, clock, fault, reader state or history for a simulator to control.",
    "C03": "Pure decoders of binary sub-encodings (bytes -> steps/strings); nothing to inject or interleave.",
    "C10": "Pure grammar round-trip text -> tree -> text; quantifies over programs only, no seam.",
    "C12": "Pure string codec; the property asks for exhaustive enumeration of short strings, which is not simulation.",
    "C13": "Pure generator configuration -> text; no seam (executed only as one operation inside C14 histories).",
    "C18": "Pure function of image bytes plus two static tables; no state, fault or time dimension in the statement.",
    "C20": "Pure byte/int/string codecs; the one PRNG use (random_stager_uri) cannot affect validity by construction.",
}

PENDING = "Check not built yet in this round (planned, see DESIGN.md §7); not claimed until its machinery exists."
ALL = ["C%02d" % i for i in range(1, 21)]


def main():
    checks = []
    for pid, (level, ref, tech, text, note) in sorted(CHECKS.items()):
        checks.append({
            "property_id": pid,
            "quick_cmd": f"timeout 900 {PY} /verif/dst/run.py {pid} --tier quick",
            "thorough_cmd": f"timeout 3600 {PY} /verif/dst/run.py {pid} --tier thorough",
            "evidence_file": f"/verif/evidence/{pid}.json",
            "replay_cmd_template": f"{PY} /verif/dst/run.py {pid} --replay {{path}}",
            "engine": "dst",
            "level_claimed": {"category": level, "text": text, "design_ref": ref},
            "level_note": note,
            "technique": tech,
        })
    na = []
    for pid in ALL:
        if pid in CHECKS:
            continue
        na.append({"property_id": pid, "reason": NOT_APPLICABLE.get(pid, PENDING)})
    m = {
        "version": 1,
        "setup_cmd": f"{PY} /verif/dst/run.py selftest anchors",
        "hooks": {
            "guard": "DISSECT_COBALTSTRIKE_VERIF",
            "enable": "no hook commits: every seam is a module-level name rebound in-process by the harness "
                      "(client.time, client.httpx, client.random, c2.random, module io); the variable is reserved and set "
                      "by run.py but nothing in /repo reads it",
            "baseline_off_cmd": BASELINE,
            "source_commits": [],
            "add_only": True,
        },
        "engines": [{
            "name": "dst", "path": "/verif/dst",
            "serves_properties": sorted(CHECKS),
            "kind_free_text": "deterministic simulation with fault injection: seeded plan generator, counter-based "
                              "draws, simulated storage / network / clock / PRNG seams, reference models, ddmin "
                              "shrinker, JSON replay files",
        }],
        "checks": checks,
        "not_applicable": na,
        "notes": "See DESIGN.md. Fix commits in /repo are listed in known_findings.json under 'fixed'.",
    }
    with open(os.path.join(VERIF, "MANIFEST.json"), "w") as f:
        json.dump(m, f, indent=1)
    print("wrote MANIFEST.json with", len(checks), "checks,", len(na), "not applicable")


if __name__ == "__main__":
    main()
