#!/bin/bash
# tools/ingest_round.sh <round-dir> <round-tag> <prop>...   e.g.  tools/ingest_round.sh /tmp/r10 r10 C05 C06
# Verifies (tools/ingest_seed.py) every <round-dir>/<prop>/out/<n>/ as seeded/<prop>-<tag>-<n>, three at a time.
R=$1; T=$2; shift 2
cd "$(dirname "$0")/.."
for p in "$@"; do for n in 1 2 3 4; do
  [ -f $R/$p/out/$n/patch.diff ] && echo "$R/$p/out/$n $p-$T-$n $p"
done; done | xargs -P 3 -L 1 /venv/bin/python tools/ingest_seed.py 2>&1 | grep -v condarc
