#!/usr/bin/env python3
"""Systematic sensitivity sweep: small syntactic changes ("mutants") inside the code regions each property is anchored
in, each applied to a scratch copy of the package (never to /repo), run through the quick check of the properties that
region belongs to (sweep mode: stop at the first confirmed violation).

  tools/mutsweep.py list                       print the mutant population (id, file:line, operator, properties)
  tools/mutsweep.py run [--only-prop C09] [--sample N --sample-seed S] [--jobs 4] [--workers 4] [--runs-div 4]
                        [--ids id,id] [--resume]
  tools/mutsweep.py tests                      run the pinned test suite on every surviving mutant (is it "realistic"?)
  tools/mutsweep.py report                     summary per property and operator + list of survivors

Results: /verif/selftest/mutsweep.json (one entry per mutant id). Scratch copies live under /tmp/dst-mutsweep/<id> and
are removed after each mutant. A surviving mutant is either an equivalent change (the property still holds), a change
outside what the property states, or a gap in the check: survivors are triaged by hand and recorded in DESIGN.md.
"""
from __future__ import annotations

import argparse
import ast
import hashlib
import json
import os
import random
import shutil
import subprocess
import sys
import time
from concurrent.futures import ThreadPoolExecutor

VERIF = os.path.dirname(os.path.dirname(os.path.abspath(__file__)))
REPO = os.environ.get("MUTSWEEP_REPO", "/repo")
PKG = "dissect/cobaltstrike"
PY = "/venv/bin/python"
RES = os.path.join(VERIF, "selftest", "mutsweep.json")
SCRATCH = "/tmp/dst-mutsweep"

# (file, function or class.method qualified name) -> properties whose checks must notice a change there.
# Taken from the anchors of the properties (properties.jsonl) and the call graph below them.
TARGETS = {
    "utils.py": {
        "iter_find_needle": ["C15", "C01"],
        "xor": ["C04", "C09"],
        "netbios_encode": ["C04"],
        "netbios_decode": ["C04"],
    },
    "artifact.py": {
        "iter_artifactkit_payloads": ["C15"],
    },
    "xordecode.py": {
        "*": ["C09", "C01"],
    },
    "beacon.py": {
        "find_beacon_config_bytes": ["C01"],
        "iter_beacon_config_blocks": ["C01"],
        "BeaconConfig.from_file": ["C01", "C17"],
        "BeaconConfig.from_bytes": ["C01"],
        "BeaconConfig.from_path": ["C01"],
        "BeaconConfig.__init__": ["C01", "C14"],
        "iter_settings": ["C01", "C08"],
        "BeaconConfig.raw_settings": ["C14"],
        "BeaconConfig.raw_settings_by_index": ["C14"],
        "BeaconConfig.settings": ["C14"],
        "BeaconConfig.settings_by_index": ["C14"],
    },
    "guardrails.py": {
        "*": ["C17"],
    },
    "c2.py": {
        "EncryptedPacket.*": ["C05"],
        "ClientC2Data.*": ["C05", "C07"],
        "ServerC2Data.*": ["C05", "C07"],
        "C2Data.*": ["C05", "C07"],
        "pad": ["C05"],
        "encrypt_data": ["C05"],
        "decrypt_data": ["C05"],
        "encrypt_packet": ["C05"],
        "decrypt_packet": ["C05"],
        "parse_raw_http": ["C16"],
        "HttpDataTransform.*": ["C04", "C07"],
        "C2Http.*": ["C07"],
        "decrypt_metadata": ["C06"],
        "encrypt_metadata": ["C06"],
        "derive_aes_hmac_keys": ["C06"],
        "BeaconKeys.*": ["C06", "C07"],
    },
    "client.py": {
        "HttpBeaconClient.run": ["C19", "C07"],
        "HttpBeaconClient._beacon_loop": ["C19", "C07"],
        "HttpBeaconClient.get_task": ["C07", "C19"],
        "HttpBeaconClient.send_callback": ["C07", "C19"],
        "HttpBeaconClient.get_sleep_time": ["C19"],
        "HttpBeaconClient.register_task": ["C19"],
        "HttpBeaconClient.handle": ["C19"],
        "HttpBeaconClient.catch_all": ["C19"],
        "HttpBeaconClient.get_handlers": ["C19"],
        "HttpBeaconClient.__init__": ["C19"],
    },
    "c2profile.py": {
        "C2Profile.as_dict": ["C11"],
        "C2Profile.properties": ["C11"],
        "C2Profile.set_option": ["C11"],
        "C2Profile.set_config_block": ["C11"],
        "C2Profile.set_non_empty_config_block": ["C11"],
        "ConfigBlock.*": ["C11"],
        "DataTransformBlock.*": ["C11"],
        "string_token_to_bytes": ["C11"],
        "StringIterator.*": ["C11"],
    },
}

CMP_SWAP = {ast.Lt: "<=", ast.LtE: "<", ast.Gt: ">=", ast.GtE: ">", ast.Eq: "!=", ast.NotEq: "==",
            ast.In: "not in", ast.NotIn: "in", ast.Is: "is not", ast.IsNot: "is"}
CMP_TXT = {ast.Lt: "<", ast.LtE: "<=", ast.Gt: ">", ast.GtE: ">=", ast.Eq: "==", ast.NotEq: "!=",
           ast.In: "in", ast.NotIn: "not in", ast.Is: "is", ast.IsNot: "is not"}
BIN_SWAP = {ast.Add: ("+", "-"), ast.Sub: ("-", "+"), ast.Mult: ("*", "//"), ast.FloorDiv: ("//", "*"),
            ast.Mod: ("%", "//"), ast.BitXor: ("^", "|"), ast.BitAnd: ("&", "|"), ast.BitOr: ("|", "&"),
            ast.LShift: ("<<", ">>"), ast.RShift: (">>", "<<"), ast.Div: ("/", "*")}


def _qualnames(tree):
    """Yield (qualified name, node) for functions and methods."""
    for node in tree.body:
        if isinstance(node, (ast.FunctionDef, ast.AsyncFunctionDef)):
            yield node.name, node
        elif isinstance(node, ast.ClassDef):
            for sub in node.body:
                if isinstance(sub, (ast.FunctionDef, ast.AsyncFunctionDef)):
                    yield f"{node.name}.{sub.name}", sub


def _props_for(fname, qual):
    t = TARGETS.get(fname, {})
    if qual.split(".")[-1] in ("main", "build_parser", "__repr__", "__str__"):
        return None
    if qual in t:
        return t[qual]
    cls = qual.split(".")[0] + ".*"
    if "." in qual and cls in t:
        return t[cls]
    if "*" in t:
        return t["*"]
    return None


class Src:
    def __init__(self, text):
        self.text = text
        self.lines = text.splitlines(keepends=True)
        self.offs = [0]
        for ln in self.lines:
            self.offs.append(self.offs[-1] + len(ln.encode("utf-8")))
        self.bytes = text.encode("utf-8")

    def pos(self, line, col):
        return self.offs[line - 1] + col

    def seg(self, node):
        return self.bytes[self.pos(node.lineno, node.col_offset):self.pos(node.end_lineno, node.end_col_offset)].decode()

    def splice(self, a, b, new):
        return (self.bytes[:a] + new.encode() + self.bytes[b:]).decode()


def gen_file(fname):
    path = os.path.join(REPO, PKG, fname)
    text = open(path).read()
    src = Src(text)
    tree = ast.parse(text)
    out = []

    def add(node_or_span, new, op, qual, props):
        if isinstance(node_or_span, tuple):
            a, b, line = node_or_span
        else:
            a = src.pos(node_or_span.lineno, node_or_span.col_offset)
            b = src.pos(node_or_span.end_lineno, node_or_span.end_col_offset)
            line = node_or_span.lineno
        old = src.bytes[a:b].decode()
        if old == new:
            return
        mutated = src.splice(a, b, new)
        try:
            compile(mutated, fname, "exec")
        except SyntaxError:
            return
        mid = hashlib.sha256(f"{fname}|{a}|{b}|{new}".encode()).hexdigest()[:10]
        out.append({"id": f"{fname[:-3]}-{line}-{mid}", "file": fname, "line": line, "func": qual, "op": op,
                    "old": old[:80], "new": new[:80], "a": a, "b": b, "props": props})

    for qual, fn in _qualnames(tree):
        props = _props_for(fname, qual)
        if not props:
            continue
        docstring_node = None
        if fn.body and isinstance(fn.body[0], ast.Expr) and isinstance(getattr(fn.body[0], "value", None), ast.Constant) \
                and isinstance(fn.body[0].value.value, str):
            docstring_node = fn.body[0].value
        for node in ast.walk(fn):
            if node is docstring_node:
                continue
            if isinstance(node, ast.Compare) and len(node.ops) == 1:
                op = node.ops[0]
                if type(op) in CMP_SWAP:
                    # operator text lies between left.end and comparators[0].start
                    a = src.pos(node.left.end_lineno, node.left.end_col_offset)
                    b = src.pos(node.comparators[0].lineno, node.comparators[0].col_offset)
                    mid = src.bytes[a:b].decode()
                    old = CMP_TXT[type(op)]
                    if old in mid:
                        add((a, b, node.lineno), mid.replace(old, CMP_SWAP[type(op)], 1), "cmp", qual, props)
                    # relational -> off by one direction too
                    if isinstance(op, (ast.Eq,)):
                        add((a, b, node.lineno), mid.replace("==", ">=", 1), "cmp-eq-ge", qual, props)
            elif isinstance(node, ast.BinOp) and type(node.op) in BIN_SWAP:
                a = src.pos(node.left.end_lineno, node.left.end_col_offset)
                b = src.pos(node.right.lineno, node.right.col_offset)
                mid = src.bytes[a:b].decode()
                old, new = BIN_SWAP[type(node.op)]
                # string formatting with % is not arithmetic
                if isinstance(node.op, ast.Mod) and isinstance(node.left, ast.Constant) and isinstance(node.left.value, (str, bytes)):
                    continue
                if old in mid and "(" not in mid and ")" not in mid:
                    add((a, b, node.lineno), mid.replace(old, new, 1), "binop", qual, props)
            elif isinstance(node, ast.BoolOp):
                # swap the first operator occurrence between the first two values
                v0, v1 = node.values[0], node.values[1]
                a = src.pos(v0.end_lineno, v0.end_col_offset)
                b = src.pos(v1.lineno, v1.col_offset)
                mid = src.bytes[a:b].decode()
                old, new = ("and", "or") if isinstance(node.op, ast.And) else ("or", "and")
                if f" {old} " in mid or mid.strip() == old:
                    add((a, b, node.lineno), mid.replace(old, new, 1), "boolop", qual, props)
            elif isinstance(node, ast.UnaryOp) and isinstance(node.op, ast.Not):
                add(node, "(" + src.seg(node.operand) + ")", "drop-not", qual, props)
            elif isinstance(node, ast.Constant) and isinstance(node.value, int) and not isinstance(node.value, bool):
                v = node.value
                seg = src.seg(node)
                if seg.startswith(("0x", "0X")):
                    fmt = lambda x: hex(x)
                else:
                    fmt = lambda x: str(x)
                add(node, fmt(v + 1), "const+1", qual, props)
                if v >= 1:
                    add(node, fmt(v - 1), "const-1", qual, props)
            elif isinstance(node, ast.Constant) and isinstance(node.value, bool):
                add(node, "False" if node.value else "True", "bool-flip", qual, props)
            elif isinstance(node, ast.Constant) and isinstance(node.value, bytes) and 0 < len(node.value) <= 8:
                v = node.value
                nv = bytes([v[0] ^ 1]) + v[1:]
                add(node, repr(nv), "bytes-flip", qual, props)
            elif isinstance(node, (ast.If, ast.While)):
                t = node.test
                add(t, "not (" + src.seg(t) + ")", "negate-cond", qual, props)
            elif isinstance(node, ast.Break):
                add(node, "continue", "break->continue", qual, props)
            elif isinstance(node, ast.Continue):
                add(node, "break", "continue->break", qual, props)
            elif isinstance(node, ast.Expr) and isinstance(node.value, ast.Call):
                callee = src.seg(node.value.func)
                if callee.split(".")[0] in ("logger", "log", "logging") or ".logger." in callee or callee.startswith("self.logger"):
                    continue    # logging is not behaviour any property speaks about
                add(node, "pass", "drop-call", qual, props)
            elif isinstance(node, (ast.Assign, ast.AugAssign)) and node.lineno == node.end_lineno:
                if isinstance(node, ast.AugAssign):
                    add(node, "pass", "drop-augassign", qual, props)
                else:
                    # x = f(y) -> keep targets defined: only drop re-assignments of attributes / subscripts
                    tg = node.targets[0]
                    if isinstance(tg, (ast.Attribute, ast.Subscript)):
                        add(node, "pass", "drop-store", qual, props)
            elif isinstance(node, ast.Subscript) and isinstance(node.slice, ast.Slice):
                sl = node.slice
                if sl.lower is not None and sl.upper is not None:
                    # a[x:y] -> a[x:] and a[:y]
                    a = src.pos(sl.lower.lineno, sl.lower.col_offset)
                    b = src.pos(sl.upper.end_lineno, sl.upper.end_col_offset)
                    add((a, b, node.lineno), src.seg(sl.lower) + ":", "slice-drop-upper", qual, props)
                    add((a, b, node.lineno), ":" + src.seg(sl.upper), "slice-drop-lower", qual, props)
            elif isinstance(node, ast.Return) and node.value is not None and not isinstance(node.value, ast.Constant):
                if isinstance(node.value, (ast.Name, ast.Attribute, ast.Call, ast.BinOp, ast.Subscript)):
                    pass  # result replacement is too blunt to be realistic
            elif isinstance(node, ast.Call) and isinstance(node.func, ast.Name) and node.func.id in ("min", "max"):
                f = node.func
                add(f, "max" if f.id == "min" else "min", "min<->max", qual, props)
    # de-duplicate ids
    seen = {}
    for m in out:
        seen.setdefault(m["id"], m)
    return list(seen.values())


def population():
    out = []
    for fname in sorted(TARGETS):
        out += gen_file(fname)
    return out


def make_scratch(m):
    d = os.path.join(SCRATCH, m["id"])
    shutil.rmtree(d, ignore_errors=True)
    os.makedirs(os.path.join(d, "dissect"))
    shutil.copytree(os.path.join(REPO, PKG), os.path.join(d, PKG), ignore=shutil.ignore_patterns("__pycache__"))
    os.symlink(os.path.join(REPO, "tests"), os.path.join(d, "tests"))
    for extra in ("pyproject.toml", "tox.ini", "setup.py", "setup.cfg"):
        if os.path.exists(os.path.join(REPO, extra)):
            os.symlink(os.path.join(REPO, extra), os.path.join(d, extra))
    path = os.path.join(d, PKG, m["file"])
    src = Src(open(path).read())
    open(path, "w").write(src.splice(m["a"], m["b"], m["new"]))
    return d


def run_one(m, workers, runs_div, props_filter=None, tier="quick"):
    d = make_scratch(m)
    entry = {"file": m["file"], "line": m["line"], "func": m["func"], "op": m["op"], "old": m["old"], "new": m["new"],
             "checks": {}}
    try:
        for pid in m["props"]:
            if props_filter and pid not in props_filter:
                continue
            env = dict(os.environ)
            env.update({"VERIF_REPO": d, "VERIF_OUT": os.path.join(d, "out"), "VERIF_WORKERS": str(workers), "PYTHONHASHSEED": "0", "VERIF_WALL_CAP": "2000",
                        "PYTHONDONTWRITEBYTECODE": "1"})
            cmd = ["timeout", "2400", PY, os.path.join(VERIF, "dst", "run.py"), pid, "--tier", tier, "--sweep"]
            if runs_div > 1:
                cmd += ["--runs-div", str(runs_div)]
            t0 = time.time()
            p = subprocess.run(cmd, capture_output=True, text=True, env=env)
            sig = [ln.strip()[:220] for ln in p.stdout.splitlines() if ln.strip().startswith("signature=")]
            herr = [ln.strip()[:300] for ln in p.stdout.splitlines() if ln.startswith("HARNESS-ERROR")]
            entry["checks"][pid] = {"exit": p.returncode, "sig": sig[:1], "harness": herr[:1], "wall_s": round(time.time() - t0, 1),
                                    "runs_div": runs_div}
            if "repo=" + d not in p.stdout:
                entry["checks"][pid]["warning"] = "check did not import the scratch tree"
            if p.returncode == 1:
                break     # killed: no need to run the other properties' checks
    finally:
        shutil.rmtree(d, ignore_errors=True)
    entry["killed"] = any(c["exit"] == 1 for c in entry["checks"].values())
    return entry


def load():
    if os.path.exists(RES):
        return json.load(open(RES))
    return {}


def save(res):
    os.makedirs(os.path.dirname(RES), exist_ok=True)
    tmp = RES + ".tmp"
    json.dump(res, open(tmp, "w"), indent=0, sort_keys=True)
    os.replace(tmp, RES)


def cmd_run(a):
    pop = population()
    if a.only_prop:
        pop = [m for m in pop if a.only_prop in m["props"]]
    if a.only_file:
        pop = [m for m in pop if m["file"] == a.only_file]
    if a.ids:
        ids = set(a.ids.split(","))
        pop = [m for m in pop if m["id"] in ids]
    if a.sample:
        rnd = random.Random(a.sample_seed)
        rnd.shuffle(pop)
        pop = pop[:a.sample]
    res = load()
    if a.resume:
        pop = [m for m in pop if m["id"] not in res or (a.retry_survivors and not res[m["id"]].get("killed"))]
    print(f"{len(pop)} mutants to run", flush=True)
    pf = set(a.props.split(",")) if a.props else None
    done = 0
    t0 = time.time()
    with ThreadPoolExecutor(max_workers=a.jobs) as ex:
        futs = {ex.submit(run_one, m, a.workers, a.runs_div, pf, a.tier): m for m in pop}
        from concurrent.futures import as_completed
        for f in as_completed(futs):
            m = futs[f]
            try:
                e = f.result()
            except Exception as exc:
                e = {"error": repr(exc), "killed": False, "checks": {}}
            res[m["id"]] = e
            done += 1
            k = "KILLED " if e.get("killed") else "SURVIVED"
            first = next((c["sig"][0] for c in e["checks"].values() if c.get("sig")), "")
            ex2 = {p: c["exit"] for p, c in e["checks"].items()}
            print(f"[{done}/{len(pop)} {time.time()-t0:.0f}s] {k} {m['id']} {m['func']} {m['op']}: {m['old']!r} -> {m['new']!r} {ex2} {first[:110]}", flush=True)
            if done % 10 == 0:
                save(res)
    save(res)


def cmd_tests(a):
    res = load()
    pop = {m["id"]: m for m in population()}
    todo = [i for i, e in res.items() if not e.get("killed") and "tests" not in e and i in pop]
    print(f"{len(todo)} survivors to run the test suite on")
    for i in todo:
        d = make_scratch(pop[i])
        try:
            # tests import the package from the scratch copy; conftest/fixtures come from /repo/tests via the symlink
            p = subprocess.run(f"cd {d} && PYTHONPATH={d} PYTHONDONTWRITEBYTECODE=1 timeout 600 {PY} -m pytest -q -p no:cacheprovider -n 8 tests 2>&1 | tail -5",
                               shell=True, capture_output=True, text=True)
            failed = sorted(ln.split(" ")[1] for ln in p.stdout.splitlines() if ln.startswith("FAILED"))
            tail = p.stdout.strip().splitlines()[-1] if p.stdout.strip() else ""
            base = all(("test_c2profile_beacon_gate" in f or "test_beacon_dump_guardrails" in f) for f in failed) and "passed" in tail and "error" not in tail
            res[i]["tests"] = {"tail": tail[-100:], "passes_like_baseline": base}
            print(i, res[i]["tests"], flush=True)
        finally:
            shutil.rmtree(d, ignore_errors=True)
        save(res)


def cmd_report(a):
    res = load()
    from collections import Counter
    byp = Counter()
    kill = Counter()
    for i, e in res.items():
        for p in (e.get("checks") or {}):
            pass
        key = e.get("file", "?")
        byp[key] += 1
        kill[key] += bool(e.get("killed"))
    print("file: killed/total")
    for k in sorted(byp):
        print(f"  {k}: {kill[k]}/{byp[k]}")
    print("survivors:")
    for i, e in sorted(res.items(), key=lambda t: (t[1].get("file", ""), t[1].get("line", 0))):
        if not e.get("killed"):
            t = e.get("tests", {})
            tri = e.get("triage", "")
            ex = {p: c["exit"] for p, c in e.get("checks", {}).items()}
            print(f"  {i} {e.get('func')} {e.get('op')}: {e.get('old')!r} -> {e.get('new')!r} checks={ex} tests_ok={t.get('passes_like_baseline')} {tri}")


def main():
    ap = argparse.ArgumentParser()
    ap.add_argument("cmd", choices=["list", "run", "tests", "report"])
    ap.add_argument("--only-prop")
    ap.add_argument("--only-file")
    ap.add_argument("--props", help="run only these properties' checks")
    ap.add_argument("--ids")
    ap.add_argument("--sample", type=int)
    ap.add_argument("--sample-seed", type=int, default=1)
    ap.add_argument("--jobs", type=int, default=4)
    ap.add_argument("--workers", type=int, default=4)
    ap.add_argument("--runs-div", type=int, default=1)
    ap.add_argument("--tier", default="quick")
    ap.add_argument("--resume", action="store_true")
    ap.add_argument("--retry-survivors", action="store_true")
    a = ap.parse_args()
    if a.cmd == "list":
        pop = population()
        from collections import Counter
        c = Counter()
        for m in pop:
            print(m["id"], f"{m['file']}:{m['line']}", m["func"], m["op"], repr(m["old"]), "->", repr(m["new"]), m["props"])
            for p in m["props"][:1]:
                c[p] += 1
        print(len(pop), "mutants;", dict(c), file=sys.stderr)
    elif a.cmd == "run":
        cmd_run(a)
    elif a.cmd == "tests":
        cmd_tests(a)
    else:
        cmd_report(a)


if __name__ == "__main__":
    main()
