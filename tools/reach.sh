#!/bin/bash
# Reach measurement: which lines/branches of the library do the checks' plans execute?  (diagnostic, not a check)
#   tools/reach.sh [N]      N seeded plans per property (default 400) + the first 60 systematic ones
# Output: /tmp/dst-reach/report.txt (coverage report with missing lines/branches for dissect/cobaltstrike/*)
N=${1:-400}
OUT=/tmp/dst-reach; rm -rf $OUT; mkdir -p $OUT
IDX=$(seq -s, 0 $((N-1))); SIDX=$(seq -s, 0 59)
cd /verif
for p in C01 C04 C05 C06 C07 C08 C09 C11 C14 C15 C16 C17 C19; do
  ( COVERAGE_FILE=$OUT/.coverage.$p PYTHONHASHSEED=0 timeout 1500 /venv/bin/python -m coverage run --branch \
      --include='/repo/dissect/cobaltstrike/*' dst/run.py $p --indices $IDX --sys-indices $SIDX > $OUT/$p.out 2> $OUT/$p.err; echo "$p exit=$?" ) &
done
wait
cd $OUT && /venv/bin/python -m coverage combine --keep -q .coverage.* && /venv/bin/python -m coverage report -m --include='/repo/dissect/cobaltstrike/*' > report.txt
tail -30 report.txt | cut -c1-400
