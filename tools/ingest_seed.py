#!/usr/bin/env python3
"""Verify an independently written breaking change and keep it under /verif/seeded/<id>/.

  tools/ingest_seed.py /tmp/seed-C05/out/1 C05-1 C05 [--checks C05,C07]

Confirms in a scratch worktree of /repo (removed afterwards): the patch applies; the demonstration fails with the
change and passes without it; the pinned test suite still gives only the two baseline failures. Writes meta.json.
"""
import json
import os
import shutil
import subprocess
import sys

VERIF = os.path.dirname(os.path.dirname(os.path.abspath(__file__)))
PY = "/venv/bin/python"


def sh(cmd):
    return subprocess.run(cmd, shell=True, capture_output=True, text=True)


def main():
    src, sid, prop = sys.argv[1:4]
    checks = [prop]
    if "--checks" in sys.argv:
        checks = sys.argv[sys.argv.index("--checks") + 1].split(",")
    dst = os.path.join(VERIF, "seeded", sid)
    os.makedirs(dst, exist_ok=True)
    for f in ("patch.diff", "demo.py", "README.txt"):
        shutil.copy(os.path.join(src, f), os.path.join(dst, f))
    wt = f"/tmp/dst-seed-{sid}"
    sh(f"git -C /repo worktree remove --force {wt}")
    shutil.rmtree(wt, ignore_errors=True)
    assert sh(f"git -C /repo worktree add --detach {wt} HEAD").returncode == 0
    try:
        demo = os.path.join(dst, "demo.py")
        # demos were written for another checkout path: run them with PYTHONPATH pointing at the scratch tree
        base = sh(f"cd {wt} && PYTHONPATH={wt} timeout 300 {PY} {demo}")
        ap = sh(f"git -C {wt} apply {dst}/patch.diff")
        if ap.returncode:
            print("PATCH DOES NOT APPLY", ap.stderr)
            return 1
        withp = sh(f"cd {wt} && PYTHONPATH={wt} timeout 300 {PY} {demo}")
        tests = sh(f"cd {wt} && PYTHONPATH={wt} {PY} -m pytest -q -p no:cacheprovider -n 8 tests 2>&1 | tail -4")
        failed = [ln for ln in tests.stdout.splitlines() if ln.startswith("FAILED")]
        ok_tests = len(failed) == 2 and all(("test_c2profile_beacon_gate" in ln or "test_beacon_dump_guardrails" in ln) for ln in failed)
        readme = open(os.path.join(dst, "README.txt")).read()
        meta = {
            "id": sid, "property": prop, "checks": checks,
            "needs": " ".join(readme.split())[:600],
            "verified": {
                "demo_exit_without_change": base.returncode, "demo_exit_with_change": withp.returncode,
                "tests_with_change": tests.stdout.strip().splitlines()[-1] if tests.stdout.strip() else "",
                "tests_only_baseline_failures": ok_tests,
                "commands": [f"git worktree add --detach {wt} HEAD", f"PYTHONPATH={wt} {PY} demo.py  (before and after git apply patch.diff)",
                             f"PYTHONPATH={wt} {PY} -m pytest -q -p no:cacheprovider -n 8 tests"],
            },
            "written_by": "independent sub-agent given only the property text and its own scratch worktree",
        }
        json.dump(meta, open(os.path.join(dst, "meta.json"), "w"), indent=1)
        good = base.returncode == 0 and withp.returncode != 0 and ok_tests
        print(f"{sid}: demo without={base.returncode} with={withp.returncode} tests_ok={ok_tests} -> {'KEPT' if good else 'REJECTED'}")
        if not good:
            print(base.stdout[-300:], base.stderr[-300:], withp.stdout[-200:], tests.stdout[-300:])
            shutil.rmtree(dst)
            return 1
    finally:
        sh(f"git -C /repo worktree remove --force {wt}")
        shutil.rmtree(wt, ignore_errors=True)
    return 0


if __name__ == "__main__":
    sys.exit(main())
